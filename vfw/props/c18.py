"""C18 — logical clocks respect causality; CRDT replicas converge to the specified value.

Obligations
* ``clocks``      generated message histories over 2..5 nodes (local / send / deliver-any-earlier-message,
                  duplicates, self-delivery, never-delivered messages) with skewed + drifting physical clocks;
                  Lamport / HLC: a -> b  =>  ts(a) < ts(b);  vector: a -> b  <=>  happened_before, concurrency.
* ``crdt``        op + merge schedules on 2..4 replicas of G/PN counter, LWW register, OR-set against an
                  op-based specification with explicit knowledge sets (merge = union of knowledge); merge laws
                  on the generated states; to_dict/from_dict round trips.  Has an exhaustive small-scope
                  enumeration (2 replicas, 1..2 elements, every op/merge sequence up to a small length).
* ``orset-safe``  same executor, OR-set only, restricted to the domain in which the open OR-set finding
                  (no tombstones) cannot occur by construction: a remove is executed only when no other replica
                  knows any of the adds it observes.  No exclusions.
* ``roundtrip``   OR-set / LWW with non-string payloads through to_dict/from_dict.
* ``store``       CRDTStore entities in a real Simulation on a real Network (scripted per-message latency,
                  packet loss and a partition window during the write phase, gossip peer choices served from
                  the case), exact knowledge tracking of every gossip message, value == spec(knowledge) after
                  every event, full convergence after a loss-free round-robin phase.
* ``store-safe``  same, restricted: every store creates every key locally before the first gossip round and
                  OR-sets are add-only, so neither open defect can occur.  No exclusions.
"""
from __future__ import annotations

import copy
import itertools
import random as _random

from hypothesis import strategies as st

from ..harness import SimProbe, TICK, patched_random, scripted_latency
from ..runner import Obligation, Result

P = "C18"
ASSUMPTIONS = [
    "clock histories: every event (local, send, receive) ticks all three clocks; the HLC timestamp of a receive "
    "event is the now() issued right after receive() (receive() itself returns nothing)",
    "physical clocks are per-node skew + linear drift (rate > -1e6 ppm, i.e. non-decreasing) over a global time that "
    "starts at 10 s so perceived times stay non-negative",
    "LWW timestamps are unique across the whole history (HLC timestamps carry the node id); a generated duplicate is skipped",
    "counter amounts are >= 1 (ValueError is the documented outcome otherwise); CRDT payloads are non-None",
    "each replica has its own node id; copies used as merge sources are deepcopy or from_dict(to_dict()) images",
    "OR-set elements are strings in every obligation except `roundtrip` (to_dict keys elements by str())",
    "CRDTStore is exercised with G/PN counters and OR-sets only: the store's Write API has no timestamp parameter, "
    "so an LWW register cannot be written through it (LWWRegister.set requires one)",
    "store runs: after the last write there is no loss/partition and peer choice is round-robin for n intervals, "
    "which makes full dissemination a guaranteed consequence of the documented push-pull protocol",
]


def _at(lst, i, default=0):
    return lst[i % len(lst)] if lst else default


def _clamp(x, lo, hi):
    try:
        x = int(x)
    except Exception:  # noqa: BLE001
        x = lo
    return max(lo, min(hi, x))


# =============================================================================== clocks
BASE_NS = 10_000_000_000


def _burst(rounds):
    """fast node 0 stamps k local events and a send at one physical instant, slow node 1 receives the newest message
    (sometimes an older one again): the receiver's last physical component ties with the incoming one while its own clock
    is behind both and the incoming logical counter is ahead"""
    steps, sent = [], 0
    for k, again in rounds:
        steps += [[0, 0, 0, 0]] * int(k)
        steps.append([1, 0, 0, 0])
        steps.append([2, 1, 0, sent])
        if again and sent:
            steps.append([2, 1, 0, sent - 1])
        sent += 1
    return steps


def clocks_strategy(tier):
    return st.one_of(general_clocks_strategy(tier), general_clocks_strategy(tier), general_clocks_strategy(tier),
                     burst_clocks_strategy(tier))


def burst_clocks_strategy(tier):
    tail = st.lists(st.tuples(st.sampled_from([0, 1, 2, 2]), st.integers(0, 2), st.sampled_from([0, 0, 1]), st.integers(0, 10)).map(list),
                    max_size=6)
    return st.fixed_dictionaries({
        "n": st.sampled_from([2, 2, 3]),
        "init": st.lists(st.integers(0, 6), max_size=3),
        "skew": st.sampled_from([[10**9, 0], [3 * 10**9, -10**9], [5000, 0], [1, 0], [0, -5000, 10**9]]),
        "ppm": st.just([0]),
        "vc_ids": st.sampled_from(["full", "self"]),
        "hlc": st.sampled_from(["wall", "node-skew", "node-both"]),
        "wire": st.booleans(),
        "tempo": st.sampled_from([0, 3]),
        "steps": st.tuples(st.lists(st.tuples(st.integers(0, 4), st.booleans()), min_size=2, max_size=6).map(_burst), tail)
                   .map(lambda t: t[0] + t[1]),
    })


def general_clocks_strategy(tier):
    big = tier == "thorough"
    step = st.tuples(st.sampled_from([0, 1, 1, 2, 2, 2]), st.integers(0, 4),
                     st.sampled_from([0, 0, 0, 0, 1, 10, 1000, 10**6, 10**9]), st.integers(0, 40)).map(list)
    return st.fixed_dictionaries({
        "n": st.integers(2, 5),
        "init": st.lists(st.integers(0, 6), max_size=5),
        "skew": st.lists(st.sampled_from([0, 1, -1, 5000, -5000, 10**9, -10**9, 3 * 10**9]), max_size=5),
        "ppm": st.lists(st.sampled_from([0, 0, 1000, -1000, 500000, -500000, 10**6]), max_size=5),
        "vc_ids": st.sampled_from(["full", "self"]),
        "hlc": st.sampled_from(["wall", "node-skew", "node-drift", "node-both"]),
        "wire": st.booleans(),
        # tempo: 0 = as generated; 1 = identical physical clocks on all nodes; 2 = additionally global time frozen
        # (every HLC comparison is then decided by the logical component alone)
        # 3 = global time frozen but the generated (different) skews kept: a fast node stamps many events at one physical
        # instant with growing logical counters while a slow receiver's own clock stays behind both
        "tempo": st.sampled_from([0, 0, 1, 2, 3, 3]),
        "steps": st.lists(step, min_size=1, max_size=70 if big else 32),
    })


def ex_clocks(case):
    from happysimulator.core.clock import Clock
    from happysimulator.core.logical_clocks import HLCTimestamp, HybridLogicalClock, LamportClock, VectorClock
    from happysimulator.core.node_clock import FixedSkew, LinearDrift, NodeClock
    from happysimulator.core.temporal import Duration, Instant

    r = Result()
    n = _clamp(case.get("n", 2), 2, 5)
    ids = [f"n{i}" for i in range(n)]
    skew = [int(_at(case.get("skew") or [], i)) for i in range(n)]
    ppm = [max(-999_999, int(_at(case.get("ppm") or [], i))) for i in range(n)]
    mode = case.get("hlc", "wall")
    tempo = _clamp(case.get("tempo", 0) or 0, 0, 3)
    if tempo in (1, 2):
        skew, ppm = [skew[0]] * n, [ppm[0]] * n
    g = [BASE_NS]
    clock = Clock(Instant(BASE_NS))

    class Both:
        def __init__(self, s, p):
            self.a, self.b = LinearDrift(rate_ppm=p), FixedSkew(Duration(s))

        def read(self, t):
            return self.b.read(self.a.read(t))

    lam = [LamportClock(int(_at(case.get("init") or [], i))) for i in range(n)]
    vec = [VectorClock(ids[i], list(ids) if case.get("vc_ids") != "self" else [ids[i]]) for i in range(n)]
    hlc = []
    for i in range(n):
        if mode == "wall":
            hlc.append(HybridLogicalClock(ids[i], wall_time=(
                lambda i=i: Instant(g[0] + (g[0] * ppm[i]) // 1_000_000 + skew[i]))))
        else:
            model = (FixedSkew(Duration(skew[i])) if mode == "node-skew"
                     else LinearDrift(rate_ppm=ppm[i]) if mode == "node-drift" else Both(skew[i], ppm[i]))
            nc = NodeClock(model)
            nc.set_clock(clock)
            hlc.append(HybridLogicalClock(ids[i], physical_clock=nc))

    ev = []          # (node, lamport ts, vector clock copy, hlc ts)
    anc = []         # bitmask of strict ancestors
    hops = []        # max number of cross-node message edges on a path ending here
    last = [None] * n
    msgs = []        # (send event index, lamport ts, vector dict, hlc ts)
    for s in case.get("steps") or []:
        kind, i, dt, m = (list(s) + [0, 0, 0, 0])[:4]
        kind, i, dt, m = int(kind) % 3, int(i) % n, (0 if tempo >= 2 else max(0, int(dt))), int(m)
        g[0] += dt
        clock.update(Instant(g[0]))
        mask, hp = 0, 0
        if last[i] is not None:
            mask |= anc[last[i]] | (1 << last[i])
            hp = hops[last[i]]
        if kind == 2 and not msgs:
            kind = 0
        if kind == 0:
            lam[i].tick(); l = lam[i].time
            vec[i].tick()
            h = hlc[i].now()
        elif kind == 1:
            l = lam[i].send()
            v = vec[i].send()
            h = hlc[i].send()
            hw = HLCTimestamp.from_dict(h.to_dict()) if case.get("wire") else h
            msgs.append((len(ev), l, dict(v), hw))
        else:
            src, l0, v0, h0 = msgs[m % len(msgs)]
            lam[i].receive(l0); l = lam[i].time
            vec[i].receive(dict(v0))
            hlc[i].receive(h0); h = hlc[i].now()
            mask |= anc[src] | (1 << src)
            hp = max(hp, hops[src] + (1 if ev[src][0] != i else 0))
        ev.append((i, l, copy.deepcopy(vec[i]), h))
        anc.append(mask)
        hops.append(hp)
        last[i] = len(ev) - 1

    N = len(ev)
    conc = 0
    seen = set()

    def add(sig, detail):
        if sig not in seen:
            seen.add(sig)
            r.add(sig, detail)

    for b in range(N):
        vb = ev[b][2]
        if vb.happened_before(vb):
            add(f"{P}/clocks/vector-spurious-order", f"event {b} happened_before itself")
        for a in range(b):
            va = ev[a][2]
            if (anc[b] >> a) & 1:
                if not ev[a][1] < ev[b][1]:
                    add(f"{P}/clocks/lamport-hb-not-less", f"e{a}@n{ev[a][0]} -> e{b}@n{ev[b][0]} but {ev[a][1]} !< {ev[b][1]}")
                if not ev[a][3] < ev[b][3]:
                    add(f"{P}/clocks/hlc-hb-not-less", f"e{a}@n{ev[a][0]} -> e{b}@n{ev[b][0]} but {ev[a][3]} !< {ev[b][3]}")
                if not va.happened_before(vb):
                    add(f"{P}/clocks/vector-hb-missed", f"e{a} -> e{b} but {va.snapshot()} !hb {vb.snapshot()}")
                if vb.happened_before(va):
                    add(f"{P}/clocks/vector-spurious-order", f"e{a} -> e{b} yet later hb earlier: {vb.snapshot()} {va.snapshot()}")
                if va.is_concurrent(vb) or vb.is_concurrent(va):
                    add(f"{P}/clocks/vector-concurrent-mismatch", f"e{a} -> e{b} reported concurrent")
            else:
                conc += 1
                if va.happened_before(vb) or vb.happened_before(va):
                    add(f"{P}/clocks/vector-spurious-order", f"e{a} || e{b} but ordered: {va.snapshot()} {vb.snapshot()}")
                if not va.is_concurrent(vb) or not vb.is_concurrent(va):
                    add(f"{P}/clocks/vector-concurrent-mismatch", f"e{a} || e{b} not reported concurrent")
    chain = max(hops) if hops else 0
    r.nontrivial = conc >= 1 and chain >= 2
    r.labels += [f"conc-{'y' if conc else 'n'}", f"chain-{min(chain, 3)}", f"hlc-{mode}", f"tempo-{tempo}"]
    r.target = float(min(conc, 50) + 10 * min(chain, 5))
    return r


# =============================================================================== CRDT specification
class Spec:
    """Op-based specification with explicit knowledge sets: a replica's state is the set of op ids it has
    received; merge is set union; the value is a function of the known ops only."""

    def __init__(self, typ):
        self.typ = typ
        self.ops = []

    def new(self, rec):
        self.ops.append(rec)
        return len(self.ops) - 1

    def observed(self, K, elem):
        return frozenset(i for i in K if self.ops[i][0] == "add" and self.ops[i][1] == elem)

    def removed(self, K):
        out = set()
        for i in K:
            if self.ops[i][0] == "rm":
                out |= self.ops[i][2]
        return out

    def live(self, K, elem):
        return self.observed(K, elem) - self.removed(K)

    def value(self, K):
        t = self.typ
        if t in ("g", "pn"):
            return sum(self.ops[i][1] if self.ops[i][0] == "inc" else -self.ops[i][1] for i in K)
        if t == "or":
            dead = self.removed(K)
            return frozenset(self.ops[i][1] for i in K if self.ops[i][0] == "add" and i not in dead)
        if t == "lww":
            best = None
            for i in K:
                if best is None or self.ops[i][2] > self.ops[best][2]:
                    best = i
            return None if best is None else self.ops[best][1]
        raise ValueError(t)

    def has_remove(self, K, elem=None):
        return any(self.ops[i][0] == "rm" and (elem is None or self.ops[i][1] == elem) for i in K)


TYPES = ["g", "pn", "lww", "or"]
ELEMS = ["x", "y", "z"]


def _make(typ, nid):
    from happysimulator.components.crdt.g_counter import GCounter
    from happysimulator.components.crdt.lww_register import LWWRegister
    from happysimulator.components.crdt.or_set import ORSet
    from happysimulator.components.crdt.pn_counter import PNCounter
    return {"g": GCounter, "pn": PNCounter, "lww": LWWRegister, "or": ORSet}[typ](nid)


def _value_sig(obl, typ, spec, K_all, impl, want, where=""):
    """Signature of a value/spec mismatch, classified per root cause from the history alone."""
    if typ == "or":
        try:
            extra = set(impl) - set(want)
            missing = set(want) - set(impl)
        except TypeError:
            return f"{P}/{obl}/value-differs-from-spec/or"
        if missing:
            return f"{P}/{obl}/value-differs-from-spec/or-element-missing"
        if extra and all(spec.has_remove(K_all, e) for e in extra):
            return f"{P}/{obl}/orset-remove/element-present"
        return f"{P}/{obl}/value-differs-from-spec/or-unexpected-element"
    return f"{P}/{obl}/value-differs-from-spec/{typ}"


def crdt_steps(tier, typ_codes=4):
    big = tier == "thorough"
    step = st.one_of(
        st.tuples(st.sampled_from(["op", "op", "op2"]), st.integers(0, 3), st.integers(0, 5), st.integers(0, 40)),
        st.tuples(st.sampled_from(["m", "m", "md"]), st.integers(0, 3), st.integers(0, 3), st.just(0)),
        st.tuples(st.sampled_from(["m", "md", "snap", "rs", "rs"]), st.integers(0, 3), st.integers(0, 3), st.just(0)),
    ).map(list)
    return st.lists(step, min_size=1, max_size=40 if big else 18)


def restart_steps(tier):
    """crash/restart shape: replica i works and gossips to j, (optionally persists in between,) restarts from its last
    snapshot, catches up from j, works again and gossips; random steps around it"""
    opi = st.tuples(st.sampled_from(["op", "op", "op2"]), st.just(0), st.integers(0, 5), st.integers(0, 40)).map(list)
    mid = st.lists(st.one_of(opi, st.just(["snap", 0, 0, 0]), st.just(["m", 1, 0, 0]), st.just(["md", 1, 0, 0])), min_size=1, max_size=5)
    after = st.lists(st.one_of(opi, st.just(["m", 1, 0, 0]), st.just(["m", 0, 1, 0])), min_size=1, max_size=4)
    return st.tuples(mid, after, crdt_steps(tier)).map(
        lambda t: t[0] + [["m", 1, 0, 0], ["rs", 0, 0, 0], ["m", 0, 1, 0]] + t[1] + [["m", 1, 0, 0]] + t[2][:4])


def crdt_strategy(types):
    def s(tier):
        return st.fixed_dictionaries({
            "type": st.sampled_from(types),
            "n": st.integers(2, 4),
            "nelem": st.integers(1, 3),
            "steps": st.one_of(crdt_steps(tier), crdt_steps(tier), crdt_steps(tier), restart_steps(tier)),
            "law": st.lists(st.integers(0, 3), min_size=3, max_size=3),
        })
    return s


def run_crdt(case, obl, safe=False):
    from happysimulator.core.logical_clocks import HLCTimestamp

    r = Result()
    typ = case.get("type", "g")
    if typ not in TYPES:
        typ = "g"
    if safe:
        typ = "or"
    n = _clamp(case.get("n", 2), 2, 4)
    nelem = _clamp(case.get("nelem", 1), 1, 3)
    ids = [f"r{i}" for i in range(n)]
    reps = [_make(typ, ids[i]) for i in range(n)]
    cls = type(reps[0])
    spec = Spec(typ)
    K = [set() for _ in range(n)]
    used_ts = set()
    seen = set()
    stats = {"rm": 0, "rm_skipped": 0, "merge_after_rm": set(), "ops": 0, "merges": 0, "dup_ts": 0}

    reuse = {"tag": None}                      # first own tag an OR-set replica minted twice (after a restart)
    minted = [set() for _ in range(n)]

    def add(sig, detail):
        if typ == "or" and reuse["tag"] is not None:
            # root cause class: a restarted replica handed out a tag it had already used; everything that goes wrong with
            # that OR-set history afterwards is filed under it
            sig = f"{P}/{obl}/orset-tag-reused-after-restore/" + sig[len(f"{P}/{obl}/"):]
            detail = f"[tag {reuse['tag']} minted twice] {detail}"
        if sig not in seen:
            seen.add(sig)
            r.add(sig, detail)

    def all_known():
        return set(range(len(spec.ops)))

    def check_value(i, what):
        want = spec.value(K[i])
        got = reps[i].value
        if got != want:
            add(_value_sig(obl, typ, spec, all_known(), got, want),
                f"{what}: replica r{i} value {got!r} != spec {want!r}")
            return False
        if typ == "lww":
            best = max((spec.ops[j][2] for j in K[i]), default=None)
            ts = reps[i].timestamp
            got_ts = None if ts is None else (ts.physical_ns, ts.logical, ts.node_id)
            if got_ts != best:
                add(f"{P}/{obl}/value-differs-from-spec/lww", f"{what}: timestamp {got_ts} != greatest known {best}")
                return False
        return True

    def tags_of(c):
        d = c.to_dict().get("entries", {})
        items = d.items() if isinstance(d, dict) else d          # dict keyed by element, or list of [element, tags] pairs
        return {e: sorted(map(tuple, t)) for e, t in items if t}

    def check_equal(i, j, what):
        a, b = reps[i], reps[j]
        eq = (a == b) and (b == a) and not (a != b)
        if eq and a.value == b.value:
            return
        if typ == "or":
            ta, tb = tags_of(a), tags_of(b)
            diff = [e for e in set(ta) | set(tb) if ta.get(e) != tb.get(e)]
            if diff and all(spec.has_remove(K[i], e) for e in diff):
                add(f"{P}/{obl}/orset-remove/same-updates-unequal",
                    f"{what}: r{i} and r{j} received the same updates but differ on {sorted(diff)}: {ta} vs {tb}")
                return
        add(f"{P}/{obl}/same-updates-unequal/{typ}",
            f"{what}: r{i}={a.to_dict()} r{j}={b.to_dict()} received the same updates but are not equal")

    issuer = []                                  # op id -> replica that issued it
    snaps = [(reps[i].to_dict(), frozenset()) for i in range(n)]     # last persisted state of each replica (initially empty)
    stats.update(restores=0, stale_restores=0, own_op_deferred=0, minted_after_restore=False)
    restored = [False] * n

    def may_mint(i):
        """A replica that was rolled back must first re-learn (by merging) every op it issued that some peer still
        knows before it issues new ones under the same node id; otherwise its per-node slot / tag sequence would fork -
        that is a usage error of any state-based CRDT, not a library defect."""
        return all(j in K[i] for q in range(n) if q != i for j in K[q] if issuer[j] == i)

    for sidx, s in enumerate(case.get("steps") or []):
        kind, i, a, b = (list(s) + [0, 0, 0, 0])[:4]
        i = int(i) % n
        a, b = int(a), int(b)
        if kind == "snap":
            snaps[i] = (reps[i].to_dict(), frozenset(K[i]))
            continue
        if kind == "rs":
            # crash + restart of replica i from its last persisted snapshot: from_dict of a state the replica itself
            # produced; its knowledge rolls back to the snapshot's
            stats["restores"] += 1
            if snaps[i][1] != K[i]:
                stats["stale_restores"] += 1
            reps[i] = cls.from_dict(copy.deepcopy(snaps[i][0]))
            K[i] = set(snaps[i][1])
            restored[i] = True
            check_value(i, f"step {sidx} restore r{i}")
            for p in range(n):
                for q in range(p + 1, n):
                    if K[p] == K[q]:
                        check_equal(p, q, f"after step {sidx}")
            continue
        if kind in ("op", "op2"):
            mints = typ in ("g", "pn") or (typ == "or" and kind == "op")
            if mints and not may_mint(i):
                stats["own_op_deferred"] += 1
                continue
            if mints and restored[i]:
                stats["minted_after_restore"] = True
            stats["ops"] += 1
            n_before = len(spec.ops)
            if typ == "g" or (typ == "pn" and kind == "op"):
                amt = a % 3 + 1
                if amt == 1 and b % 2 == 0:
                    reps[i].increment()
                else:
                    reps[i].increment(amt)
                K[i].add(spec.new(("inc", amt)))
            elif typ == "pn":
                amt = a % 3 + 1
                reps[i].decrement(amt)
                K[i].add(spec.new(("dec", amt)))
            elif typ == "lww":
                ts = (b % 8, (b // 8) % 2, ids[i])
                if ts in used_ts:
                    stats["dup_ts"] += 1
                    continue
                used_ts.add(ts)
                val = f"v{a}" if kind == "op2" else a
                reps[i].set(val, HLCTimestamp(physical_ns=ts[0], logical=ts[1], node_id=ts[2]))
                K[i].add(spec.new(("set", val, ts)))
            else:
                e = ELEMS[a % nelem]
                if kind == "op":
                    tag = (ids[i], reps[i].to_dict().get("seq"))
                    if tag in minted[i] and safe:
                        stats["own_op_deferred"] += 1      # restricted domain: an add that would re-use a tag is not issued
                        continue
                    if tag in minted[i] and reuse["tag"] is None:
                        reuse["tag"] = tag
                    minted[i].add(tag)
                    reps[i].add(e)
                    K[i].add(spec.new(("add", e)))
                else:
                    obs = spec.observed(K[i], e)
                    if safe:
                        livek = spec.live(K[i], e)
                        if any(livek & K[q] for q in range(n) if q != i):
                            stats["rm_skipped"] += 1
                            continue
                    stats["rm"] += 1
                    reps[i].remove(e)
                    K[i].add(spec.new(("rm", e, obs)))
            issuer.extend([i] * (len(spec.ops) - len(issuer)))
            check_value(i, f"step {sidx} {kind}")
        else:
            j = a % n
            stats["merges"] += 1
            if kind == "md":
                src = cls.from_dict(reps[j].to_dict())
            elif i == j:
                src = reps[j]                       # self-merge (aliasing)
            else:
                src = copy.deepcopy(reps[j])
            before_src = reps[j].value
            reps[i].merge(src)
            if i != j and reps[j].value != before_src:
                add(f"{P}/{obl}/merge-mutates-source/{typ}", f"step {sidx}: merge changed the source replica")
            if spec.has_remove(K[i] | K[j]):
                stats["merge_after_rm"].add((i, j))
            K[i] |= K[j]
            check_value(i, f"step {sidx} merge r{i}<-r{j}{' via dict' if kind == 'md' else ''}")
        for p in range(n):
            for q in range(p + 1, n):
                if K[p] == K[q]:
                    check_equal(p, q, f"after step {sidx}")

    # ---- merge laws on the generated states -------------------------------------------------
    law = [int(x) % n for x in (list(case.get("law") or []) + [0, 1, 2])[:3]]
    ia, ib, ic = law
    cp = copy.deepcopy

    def merged(*idx):
        """left fold of merges over copies; returns (state, knowledge)"""
        x = cp(reps[idx[0]])
        k = set(K[idx[0]])
        for t in idx[1:]:
            x.merge(cp(reps[t]))
            k |= K[t]
        return x, k

    def same(x, y):
        return x == y and y == x and x.value == y.value

    ab, kab = merged(ia, ib)
    ba, _ = merged(ib, ia)
    if not same(ab, ba):
        add(f"{P}/{obl}/merge-not-commutative/{typ}", f"a=r{ia} b=r{ib}: {ab.to_dict()} vs {ba.to_dict()}")
    want = spec.value(kab)
    if ab.value != want:
        add(_value_sig(obl, typ, spec, all_known(), ab.value, want), f"merge(r{ia},r{ib}) value {ab.value!r} != spec {want!r}")
    ab_c, _ = merged(ia, ib, ic)
    bc, _ = merged(ib, ic)
    a_bc = cp(reps[ia]); a_bc.merge(bc)
    if not same(ab_c, a_bc):
        add(f"{P}/{obl}/merge-not-associative/{typ}", f"a=r{ia} b=r{ib} c=r{ic}: {ab_c.to_dict()} vs {a_bc.to_dict()}")
    aa, _ = merged(ia, ia)
    if not same(aa, reps[ia]):
        add(f"{P}/{obl}/merge-not-idempotent/{typ}", f"merge(a,a) {aa.to_dict()} != a {reps[ia].to_dict()}")
    abb = cp(ab); abb.merge(cp(reps[ib]))
    if not same(abb, ab):
        add(f"{P}/{obl}/merge-not-idempotent/{typ}", f"merge(merge(a,b),b) != merge(a,b): {abb.to_dict()} vs {ab.to_dict()}")
    # ---- round trip ----------------------------------------------------------------------------
    for i in range(n):
        rt = cls.from_dict(reps[i].to_dict())
        if not same(rt, reps[i]):
            add(f"{P}/{obl}/roundtrip-changes-state/{typ}", f"from_dict(to_dict(r{i})) = {rt.to_dict()} != {reps[i].to_dict()}")

    both_dir = any((j, i) in stats["merge_after_rm"] for (i, j) in stats["merge_after_rm"])
    if typ == "or":
        r.nontrivial = stats["rm"] >= 1 and both_dir
    else:
        r.nontrivial = stats["merges"] >= 2 and stats["ops"] >= 2 and sum(1 for k in K if k) >= 2
    if stats["stale_restores"] and stats["merges"] >= 1:
        r.nontrivial = True
    r.labels += [f"t-{typ}", f"rm-{min(stats['rm'], 2)}", "merge-after-rm-both" if both_dir else "no-both-dir",
                 "stale-restore" if stats["stale_restores"] else ("restore" if stats["restores"] else "no-restore"),
                 "minted-after-restore" if stats["minted_after_restore"] else "no-mint-after-restore",
                 "tag-reused" if reuse["tag"] is not None else "no-tag-reuse"]
    if safe:
        r.labels.append(f"rm-skipped-{min(stats['rm_skipped'], 2)}")
    return r


def ex_crdt(case):
    return run_crdt(case, "crdt")


def ex_orset_safe(case):
    return run_crdt(case, "orset-safe", safe=True)


# ---- exhaustive small scope ----------------------------------------------------------------------
def _enum_cases(types, L1, L2):
    """2 replicas; every sequence of ops and merges up to length L1 (1 element) / L2 (2 elements, OR-set)."""
    for typ in types:
        if typ == "g":
            alpha = [["op", 0, 0, 0], ["op", 1, 0, 0], ["m", 0, 1, 0], ["m", 1, 0, 0]]
        elif typ in ("pn", "or"):
            alpha = [["op", 0, 0, 0], ["op", 1, 0, 0], ["op2", 0, 0, 0], ["op2", 1, 0, 0], ["m", 0, 1, 0], ["m", 1, 0, 0]]
        else:
            alpha = None
        if typ == "lww":
            base = [("s", 0), ("s", 1), ("m", 0), ("m", 1)]
            for length in range(1, L1 + 1):
                for seq in itertools.product(base, repeat=length):
                    for order in ("asc", "desc"):
                        steps, k = [], 0
                        for kind, i in seq:
                            if kind == "s":
                                t = k if order == "asc" else 7 - k
                                steps.append(["op", i, k, t % 8 + 8 * ((t // 8) % 2)])
                                k += 1
                            else:
                                steps.append(["m", i, 1 - i, 0])
                        yield {"type": "lww", "n": 2, "nelem": 1, "steps": steps, "law": [0, 1, 0]}
            continue
        for length in range(1, L1 + 1):
            for seq in itertools.product(alpha, repeat=length):
                yield {"type": typ, "n": 2, "nelem": 1, "steps": [list(s) for s in seq], "law": [0, 1, 0]}
        if typ == "or":
            alpha2 = [[k, i, e, 0] for k in ("op", "op2") for i in (0, 1) for e in (0, 1)] + [["m", 0, 1, 0], ["m", 1, 0, 0]]
            for length in range(2, L2 + 1):
                for seq in itertools.product(alpha2, repeat=length):
                    if not any(s[2] == 1 and s[0] != "m" for s in seq):
                        continue    # covered by the 1-element space
                    yield {"type": "or", "n": 2, "nelem": 2, "steps": [list(s) for s in seq], "law": [0, 1, 0]}


def _enum_restore_cases(types, L):
    """as _enum_cases (1 element) plus 'persist replica 0' / 'restart replica 0 from its last snapshot'; only sequences
    containing a restart (the others are covered by _enum_cases)"""
    for typ in types:
        if typ == "g":
            alpha = [["op", 0, 0, 0], ["op", 1, 0, 0], ["m", 0, 1, 0], ["m", 1, 0, 0]]
        elif typ in ("pn", "or"):
            alpha = [["op", 0, 0, 0], ["op", 1, 0, 0], ["op2", 0, 0, 0], ["op2", 1, 0, 0], ["m", 0, 1, 0], ["m", 1, 0, 0]]
        else:
            continue
        alpha = alpha + [["snap", 0, 0, 0], ["rs", 0, 0, 0]]
        for length in range(2, L + 1):
            for seq in itertools.product(alpha, repeat=length):
                if not any(x[0] == "rs" for x in seq[1:]):
                    continue
                yield {"type": typ, "n": 2, "nelem": 1, "steps": [list(x) for x in seq], "law": [0, 1, 0]}


def crdt_enum(tier):
    if tier == "thorough":
        return itertools.chain(_enum_cases(TYPES, 6, 5), _enum_restore_cases(TYPES, 6))
    return itertools.chain(_enum_cases(TYPES, 5, 3), _enum_restore_cases(TYPES, 5))


def _old_crdt_enum(tier):
    return _enum_cases(TYPES, 6, 5) if tier == "thorough" else _enum_cases(TYPES, 5, 3)


def orset_safe_enum(tier):
    return _enum_cases(["or"], 6, 5) if tier == "thorough" else _enum_cases(["or"], 5, 3)


# =============================================================================== round trip, non-string payloads
def roundtrip_strategy(tier):
    payload = st.one_of(st.integers(0, 3), st.sampled_from(["0", "1", "x"]), st.booleans(),
                        st.lists(st.integers(0, 1), max_size=2))
    return st.fixed_dictionaries({
        "type": st.sampled_from(["or", "lww"]),
        "ops": st.lists(st.tuples(st.sampled_from(["add", "add", "rm"]), payload, st.integers(0, 20)).map(list),
                        min_size=1, max_size=8),
    })


def _payload(x):
    return tuple(_payload(y) for y in x) if isinstance(x, list) else x


def ex_roundtrip(case):
    from happysimulator.components.crdt.lww_register import LWWRegister
    from happysimulator.components.crdt.or_set import ORSet
    from happysimulator.core.logical_clocks import HLCTimestamp
    r = Result()
    typ = case.get("type", "or")
    nonstr = False
    if typ == "lww":
        a = LWWRegister("a")
        used = set()
        for op, v, t in case.get("ops") or []:
            t = int(t)
            if t in used:
                continue
            used.add(t)
            a.set(_payload(v), HLCTimestamp(physical_ns=t, logical=0, node_id="a"))
            nonstr |= not isinstance(v, str)
        b = LWWRegister.from_dict(a.to_dict())
        if not (b == a and b.value == a.value and b.timestamp == a.timestamp):
            r.add(f"{P}/roundtrip/lww-changes-state", f"{a.to_dict()} -> {b.to_dict()}")
    else:
        a = ORSet("a")
        for op, v, t in case.get("ops") or []:
            v = _payload(v)
            nonstr |= not isinstance(v, str)
            a.add(v) if op != "rm" else a.remove(v)
        b = ORSet.from_dict(a.to_dict())
        # class: did the history ever hold a non-string element (also removed ones: to_dict still keys them by str())
        only_str = not nonstr
        if b.value != a.value or not (b == a):
            r.add(f"{P}/roundtrip/orset-changes-state/" + ("string-elements" if only_str else "non-string-elements"),
                  f"value {sorted(map(repr, a.value))} -> {sorted(map(repr, b.value))} after from_dict(to_dict())")
        c = ORSet("c")
        c.merge(b)
        d = ORSet("d")
        d.merge(a)
        if c.value != d.value:
            r.add(f"{P}/roundtrip/orset-changes-state/" + ("string-elements" if only_str else "non-string-elements"),
                  f"merging the round-tripped image gives {sorted(map(repr, c.value))}, merging the original {sorted(map(repr, d.value))}")
    r.nontrivial = nonstr and len(case.get("ops") or []) >= 2
    r.labels += [f"rt-{typ}", "nonstr" if nonstr else "str"]
    return r


# =============================================================================== CRDTStore in the engine
INTERVALS = [32, 48, 64]            # gossip intervals in ticks (1/512 s)
MAXLAT = 40
KEYS = ["k0", "k1"]


def store_strategy(safe):
    def s(tier):
        big = tier == "thorough"
        write = st.tuples(st.integers(0, 160), st.integers(0, 3), st.integers(0, 1),
                          st.sampled_from(["op", "op", "op2"]), st.integers(0, 5)).map(list)
        return st.fixed_dictionaries({
            "type": st.sampled_from(["g", "pn", "or"]),
            "n": st.integers(2, 4),
            "intervals": st.lists(st.integers(0, 2), max_size=4),
            "lat": st.lists(st.integers(1, MAXLAT), max_size=24),
            "loss": st.sampled_from([0, 0, 1, 2]),
            "part": st.one_of(st.none(), st.tuples(st.integers(0, 160), st.integers(1, 120), st.integers(1, 3)).map(list)),
            "writes": st.lists(write, min_size=1, max_size=24 if big else 10),
            "reads": st.lists(st.tuples(st.integers(0, 200), st.integers(0, 3), st.integers(0, 1)).map(list), max_size=4),
            "choices": st.lists(st.integers(0, 5), max_size=30),
            "seed": st.integers(0, 10**6),
        })
    return s


def run_store(case, obl, safe=False):
    from happysimulator import Entity, Event, Instant, SimFuture, Simulation
    from happysimulator.components.crdt import crdt_store as cs_mod
    from happysimulator.components.crdt.crdt_store import CRDTStore
    from happysimulator.components.network import link as link_mod
    from happysimulator.components.network.link import NetworkLink
    from happysimulator.components.network.network import Network
    from happysimulator.core.event import ProcessContinuation

    r = Result()
    typ = case.get("type", "g")
    if typ not in ("g", "pn", "or"):
        typ = "g"
    n = _clamp(case.get("n", 2), 2, 4)
    names = [f"s{i}" for i in range(n)]
    ivals = [INTERVALS[int(_at(case.get("intervals") or [], i)) % 3] for i in range(n)]
    seed = int(case.get("seed", 0) or 0)
    loss = [0.0, 0.25, 0.5][int(case.get("loss", 0) or 0) % 3]

    # ---- workload (ticks) --------------------------------------------------------------------
    writes = []
    if safe:
        for i in range(n):
            for k in KEYS:
                writes.append([0, i, KEYS.index(k), "op", 0])
    for w in case.get("writes") or []:
        t, i, k, kind, a = (list(w) + [0, 0, 0, "op", 0])[:5]
        kind = kind if kind in ("op", "op2") else "op"
        if safe and typ == "or":
            kind = "op"
        writes.append([_clamp(t, 0, 160) + (1 if safe else 0), int(i) % n, int(k) % 2, kind, int(a)])
    t_last = max(w[0] for w in writes)
    imax = max(ivals)
    t_end = t_last + n * imax + 2 * MAXLAT + 4
    part = case.get("part")
    if part:
        p0, plen, pk = (list(part) + [0, 1, 1])[:3]
        p0 = _clamp(p0, 0, 160)
        p1 = min(p0 + _clamp(plen, 1, 120), t_last)
        pk = _clamp(pk, 1, n - 1)
        if p1 <= p0:
            part = None

    net = Network(name="net")
    stores = [CRDTStore(names[i], net, crdt_factory=(lambda nid: _make(typ, nid)), gossip_interval=ivals[i] / 512)
              for i in range(n)]
    lat_all = [int(x) for x in (case.get("lat") or [])] or [1]
    links = []
    li = 0
    for i in range(n):
        stores[i].add_peers([s for s in stores if s is not stores[i]])
        for j in range(n):
            if i != j:
                ds = [_clamp(lat_all[(li + 3 * q) % len(lat_all)], 1, MAXLAT) / 512 for q in range(8)]
                link = NetworkLink(name=f"l{i}{j}", latency=scripted_latency(ds, ds[0], seed=seed + li),
                                   packet_loss_rate=loss)
                net.add_link(stores[i], stores[j], link)
                links.append(link)
                li += 1

    class Ctl(Entity):
        def __init__(self):
            super().__init__("ctl")
            self.handle = None

        def handle_event(self, event):
            if event.event_type == "part":
                self.handle = net.partition(stores[:pk], stores[pk:])
            elif self.handle is not None:
                self.handle.heal()
            return None

    ctl = Ctl()
    sim = Simulation(entities=[net, ctl] + stores, end_time=Instant(t_end * TICK))

    # ---- knowledge tracking -------------------------------------------------------------------
    spec = {k: Spec(typ) for k in KEYS}
    K = [{k: set() for k in KEYS} for _ in range(n)]
    snaps = []        # (state object, {key: frozenset})
    by_id = {}
    untracked = [0]
    merges_seen = [0]

    def wrap(i, s):
        orig_ser, orig_merge = s._serialize_state, s._merge_remote_state

        def ser():
            state = orig_ser()
            ent = (state, {k: frozenset(v) for k, v in K[i].items()})
            snaps.append(ent)
            by_id[id(state)] = ent
            return state

        def mrg(remote_state):
            ent = by_id.get(id(remote_state))
            if ent is None or ent[0] is not remote_state:
                ent = next((e for e in reversed(snaps) if e[0] == remote_state), None)
            orig_merge(remote_state)
            if ent is None:
                untracked[0] += 1
                return
            merges_seen[0] += 1
            for k, ks in ent[1].items():
                K[i][k] |= ks
        s._serialize_state, s._merge_remote_state = ser, mrg

    for i, s in enumerate(stores):
        wrap(i, s)

    # ---- RNG shims ------------------------------------------------------------------------------
    choices = [int(c) for c in (case.get("choices") or [])]
    rr = {}
    rng = _random.Random(seed)
    chosen = []

    def now_ticks():
        return stores[0].now.nanoseconds / TICK

    class Chooser:
        def choice(self, seq):
            key = id(seq)
            if now_ticks() > t_last or not choices:
                rr[key] = rr.get(key, -1) + 1
                c = seq[rr[key] % len(seq)]
            else:
                c = seq[choices.pop(0) % len(seq)]
            chosen.append(getattr(c, "name", "?"))
            return c

        def __getattr__(self, name):
            return getattr(rng, name)

    class Loss:
        def random(self):
            return 1.0 if now_ticks() > t_last else rng.random()

        def __getattr__(self, name):
            return getattr(rng, name)

    # ---- schedule ---------------------------------------------------------------------------------
    def opname(kind):
        if typ == "g":
            return "increment"
        if typ == "pn":
            return "increment" if kind == "op" else "decrement"
        return "add" if kind == "op" else "remove"

    for widx, (t, i, k, kind, a) in enumerate(writes):
        val = (a % 3 + 1) if typ != "or" else ELEMS[a % 2]
        if typ != "or" and val == 1 and a % 2:
            val = None                                   # exercises the no-argument form: increment()
        sim.schedule(Event(time=Instant(t * TICK), event_type="Write", target=stores[i],
                           context={"metadata": {"key": KEYS[k], "operation": opname(kind), "value": val},
                                    "vfw": ("w", i, KEYS[k], kind, val)}))
    futs = []
    for ridx, rd in enumerate(case.get("reads") or []):
        t, i, k = (list(rd) + [0, 0, 0])[:3]
        f = SimFuture()
        futs.append([f, None, False, KEYS[int(k) % 2]])
        sim.schedule(Event(time=Instant(_clamp(t, 0, 200) * TICK), event_type="Read", target=stores[int(i) % n],
                           context={"metadata": {"key": KEYS[int(k) % 2], "reply_future": f},
                                    "vfw": ("r", int(i) % n, KEYS[int(k) % 2], ridx)}))
    if part:
        sim.schedule(Event(time=Instant(p0 * TICK), event_type="part", target=ctl))
        sim.schedule(Event(time=Instant(p1 * TICK), event_type="heal", target=ctl))
    for s in stores:
        e = s.get_gossip_event()
        if e is not None:
            sim.schedule(e)

    seen = set()
    flags = {"foreign": False, "remote_created_write": False}

    def add(sig, detail):
        if sig not in seen:
            seen.add(sig)
            r.add(sig, detail)

    def all_known(k):
        return set(range(len(spec[k].ops)))

    def _ids(d):
        if isinstance(d, dict) and "type" in d:
            if "node_id" in d:
                yield d["node_id"]
            for v in d.values():
                yield from _ids(v)

    def foreign(k):
        """some store holds a replica of k (or a nested counter of it) that carries another node's id"""
        for i, s in enumerate(stores):
            c = s.crdts.get(k)
            if c is not None and (c.node_id != s.name or any(x != s.name for x in _ids(c.to_dict()))):
                return True
        return False

    def classify(k, got, want, clause):
        """root-cause class of a mismatch on key k, a function of the recorded history only"""
        if typ == "or":
            if clause == "same-updates-unequal":
                tomb = spec[k].has_remove(all_known(k))
            else:
                tomb = _value_sig(obl, typ, spec[k], all_known(k), got or (), want or ()).endswith("orset-remove/element-present")
            if tomb:
                return f"{P}/{obl}/orset-remove/" + ("element-present" if clause == "value-differs-from-spec" else clause)
        if foreign(k):
            return f"{P}/{obl}/foreign-node-id/{clause}"
        if clause == "value-differs-from-spec":
            return _value_sig(obl, typ, spec[k], all_known(k), got, want)
        return f"{P}/{obl}/{clause}/{typ}"

    empty = frozenset() if typ == "or" else 0

    def check_all(what):
        for i, s in enumerate(stores):
            cr = s.crdts
            for k in KEYS:
                c = cr.get(k)
                if c is None:
                    if K[i][k]:
                        add(f"{P}/{obl}/known-key-missing", f"{what}: {s.name} has no CRDT for {k} but received {len(K[i][k])} ops")
                    continue
                want = spec[k].value(K[i][k])
                if c.value != want:
                    add(classify(k, c.value, want, "value-differs-from-spec"),
                        f"{what}: {s.name}[{k}] = {c.value!r}, spec of the {len(K[i][k])} received ops = {want!r}; state {c.to_dict()}")

    def on_event(event):
        tag = event.context.get("vfw") if isinstance(event.context, dict) else None
        if tag is not None and not isinstance(event, ProcessContinuation):
            if tag[0] == "w":
                _, i, k, kind, val = tag
                sp = spec[k]
                if typ == "or":
                    if kind == "op":
                        K[i][k].add(sp.new(("add", val)))
                    else:
                        K[i][k].add(sp.new(("rm", val, sp.observed(K[i][k], val))))
                else:
                    K[i][k].add(sp.new(("inc" if opname(kind) == "increment" else "dec", 1 if val is None else val)))
            else:
                _, i, k, ridx = tag
                c = stores[i].crdts.get(k)
                futs[ridx][1] = None if not K[i][k] and c is None else spec[k].value(K[i][k])
                futs[ridx][2] = True
        if untracked[0] == 0:
            check_all(f"t={event.time.nanoseconds / TICK:g} ticks after {event.event_type}")

    probe = SimProbe(sim, max_per_instant=5000, max_events=60000, log=False, on_event=on_event)
    with patched_random(Chooser(), cs_mod), patched_random(Loss(), link_mod):
        outcome = probe.run()
    if outcome == "spin":
        add(f"{P}/{obl}/spin", f"more than 5000 events at one instant (t={probe.spin_at})")
    if outcome == "budget" or untracked[0]:
        r.labels.append("inconclusive-" + ("budget" if outcome == "budget" else "untracked"))
        return r

    # ---- reads --------------------------------------------------------------------------------
    for f, want, done, k in futs:
        if done and f.is_resolved:
            got = f.value.get("value") if isinstance(f.value, dict) else f.value
            if got != want:
                add(classify(k, got, want, "read-differs-from-spec"), f"Read of {k} returned {got!r}, spec {want!r}")
    # ---- convergence ----------------------------------------------------------------------------
    full = {k: all_known(k) for k in KEYS}
    incomplete = [(names[i], k) for i in range(n) for k in KEYS if K[i][k] != full[k]]
    if outcome == "done" and incomplete:
        add(f"{P}/{obl}/gossip-incomplete",
            f"after {n} loss-free round-robin gossip intervals past the last write, {incomplete[:3]} still lack updates "
            f"(merges observed {merges_seen[0]}, peers chosen {len(chosen)})")
    if outcome == "done" and not incomplete:
        for k in KEYS:
            cs = [s.crdts.get(k) for s in stores]
            if any(c is None for c in cs):
                continue
            for i in range(1, n):
                if not (cs[0] == cs[i] and cs[i] == cs[0] and cs[0].value == cs[i].value):
                    add(classify(k, None, None, "same-updates-unequal"),
                        f"{names[0]}[{k}]={cs[0].to_dict()} vs {names[i]}[{k}]={cs[i].to_dict()} after full dissemination")
    writers = {k: {w[1] for w in writes if KEYS[w[2]] == k} for k in KEYS}
    multi = any(len(v) >= 2 for v in writers.values())
    r.nontrivial = outcome == "done" and not incomplete and multi and merges_seen[0] >= 2
    r.labels += [f"t-{typ}", "converged" if not incomplete else "incomplete", "multi-writer" if multi else "single-writer",
                 "loss" if loss else "noloss", "part" if part else "nopart",
                 "foreign-id" if any(foreign(k) for k in KEYS) else "own-ids"]
    r.observed = {"events": probe.n, "merges": merges_seen[0]}
    return r


def ex_store(case):
    return run_store(case, "store")


def ex_store_safe(case):
    return run_store(case, "store-safe", safe=True)


# =============================================================================== registry
OBLIGATIONS = [
    Obligation("clocks", clocks_strategy, ex_clocks, {"quick": 3000, "thorough": 400000},
               "histories over 2..5 nodes of local/send/deliver steps (a deliver picks any earlier message: duplicates, "
               "reordering, self-delivery, never-delivered messages), Lamport clocks with different initial values, vector "
               "clocks built with the full or only the own id list, HLCs on wall-time callables or NodeClock(FixedSkew/"
               "LinearDrift/both) with skews up to seconds and drifts up to +-50%, optional to_dict/from_dict of HLC "
               "timestamps on the wire; happened-before = transitive closure of program order and send->deliver; "
               "non-trivial = at least one concurrent pair and a causal chain crossing nodes at least twice"),
    Obligation("crdt", crdt_strategy(TYPES), ex_crdt, {"quick": 6000, "thorough": 600000},
               "op/merge schedules on 2..4 replicas of one CRDT type (increment/decrement amounts 1..3, add/remove over 1..3 "
               "string elements, LWW sets with unique generated HLC timestamps in any order) with merges from deep copies, "
               "self-merges and merges through to_dict/from_dict, judged after every step against the knowledge-set "
               "specification; equality of all replica pairs with equal knowledge; commutativity/associativity/idempotence and "
               "round trip on the final states; plus the exhaustive space of all sequences (2 replicas, quick: length <=5 with "
               "1 element / <=3 with 2 elements); non-trivial = OR-set: a remove and merges in both directions after it; "
               "others: >=2 ops, >=2 merges, >=2 replicas with updates",
               enumerate=crdt_enum),
    Obligation("orset-safe", crdt_strategy(["or"]), ex_orset_safe, {"quick": 3000, "thorough": 300000},
               "as `crdt` for OR-sets, but a remove is executed only if no other replica knows any add it observes (otherwise "
               "skipped), the domain in which the missing-tombstone defect cannot occur; no exclusions; non-trivial = a remove "
               "executed and merges in both directions after it",
               enumerate=orset_safe_enum),
    Obligation("roundtrip", roundtrip_strategy, ex_roundtrip, {"quick": 600, "thorough": 20000},
               "OR-sets / LWW registers holding ints, bools, tuples and digit strings through from_dict(to_dict()); "
               "non-trivial = a non-string payload and >=2 ops"),
    Obligation("store", store_strategy(False), ex_store, {"quick": 500, "thorough": 60000},
               "2..4 CRDTStore entities (G/PN counter or OR-set factory, two keys) on a Network with scripted per-message link "
               "latencies (1..40 ticks, overtaking), gossip intervals 32/48/64 ticks, optional 25/50% packet loss and one "
               "partition window during the write phase, generated Write/Read events, gossip peer choices from the case; "
               "knowledge of every serialised state is tracked exactly; after every event value == spec(received ops); after "
               "n loss-free round-robin intervals every store holds every update and all replicas are equal; non-trivial = "
               "converged run with >=2 stores writing one key and >=2 merges",
               max_shards=16),
    Obligation("store-safe", store_strategy(True), ex_store_safe, {"quick": 300, "thorough": 30000},
               "as `store`, but every store writes every key at t=0 (before the first gossip round, so no replica is created "
               "from remote state) and OR-sets are add-only; no exclusions"),
]
