"""C17 — replication: acknowledged writes are where the mode promises; replicas converge.

One obligation per scheme (primary-backup, chain, craq, multi-leader, replicated-store), each
with a restricted-domain twin (``-safe``) in which the defects known on the pinned tree cannot
occur by construction.  The real components run in a real ``Simulation`` over a real
``Network``; the only scripted inputs are the per-message link delays (vfw.dsl.replnet) and the
anti-entropy peer choice.  Oracles look at the replicas' stores after every processed event.

Clauses (signature suffixes):
  ack-before-applied/<mode>      at the instant the client's reply future resolved, a replica that
                                 the mode promises had never held the value nor a later write's;
  ack-superseded-by-stale/<mode> ... it had, but an overtaken older message overwrote it since;
  read-uncommitted/<cause>       a chain/CRAQ read returned a value the tail had not applied yet;
  diverged/<cause>               at quiescence two replicas hold different values for a key
                                 (cause = a deterministic class of the recorded history: reordered vs
                                 in-order delivery at that replica; concurrent vs causal writes;
                                 overlapping put/delete vs put/put).
"""
from __future__ import annotations

from hypothesis import strategies as st

from ..dsl import replnet as rn
from ..dsl.replnet import ABSENT, DMAX, _lst, _n, cyc
from ..harness import TICK, patched_random
from ..runner import Obligation, Result

P = "C17"
ASSUMPTIONS = [
    "network: real Network/NetworkLink, no loss, no partition, no bandwidth limit; per-message one-way delays are "
    "multiples of 1/512 s in [0,16] ticks taken from the case (the i-th message of a directed link gets delays[i mod len])",
    "stores are KVStore with constant read/write latencies of 0..4 ticks (write latency >= 1 tick in the -safe twins); in the "
    "chain/craq obligations the tail's write latency is drawn independently (up to 16 ticks: slow tail); "
    "written values are unique non-None strings (None means 'absent' in the KVStore API)",
    "'later write' is judged by the sequence number the primary / chain head assigned (order in which it processed the "
    "Write events); 'applied' at acknowledgement = the replica holds the value of that write or of a later write to the key",
    "plain chain replication: reads are sent to the TAIL only (documented); CRAQ: reads go to any node",
    "liveness is not judged: a write whose reply future never resolves yields no ack clause (labelled 'unacked')",
    "multi-leader: anti-entropy runs from the start with a generated interval and for at least 4(n-1)+2 further rounds "
    "after the last write's messages could have been delivered; peer choice = scripted picks, then strict round-robin, "
    "so every node has synchronised with every peer >= 4 times after writes stopped; the interval exceeds every "
    "request+reconcile+response flow, so rounds do not overlap",
    "replicated-store: clients are generator processes calling put/delete through ReplicatedStore; delete is a write",
    "-safe twins: two writes to one key are at least one full propagation (128 ticks) apart, so no two writes to a key "
    "are ever in flight together; craq-safe additionally uses read latency 0 and issues reads 1000 ns off the tick grid "
    "(no store update can fall between a node's dirty check and its local read); replicated-store-safe uses "
    "delete_latency == write_latency",
    "a run that hits the event budget is inconclusive (labelled), never a violation; the spin guard is a verdict",
]

KEYS = ["k0", "k1", "k2"]
GAP = 128                     # ticks between two writes to one key in the -safe domains


# ------------------------------------------------------------------------------ strategies
def _delays(names):
    d = st.lists(st.integers(0, DMAX) | st.sampled_from([1, 1, 2, 12, 16]), max_size=8)
    return st.fixed_dictionaries({}, optional={n: d for n in names})


def _writes(tier, extra=None):
    big = tier == "thorough"
    item = {"t": st.integers(0, 24), "k": st.sampled_from([0, 0, 0, 1, 2])}
    item.update(extra or {})
    return st.lists(st.fixed_dictionaries(item), min_size=1, max_size=10 if big else 7)


def pb_strategy(safe):
    def s(tier):
        links = [f"{a}>{b}" for i in range(3) for a, b in ((f"p", f"b{i}"), (f"b{i}", "p"))]
        return st.fixed_dictionaries({
            "mode": st.integers(0, 2), "nb": st.integers(1, 3),
            "wl": st.lists(st.integers(0, 4), max_size=4),
            "writes": _writes(tier), "delays": _delays(links), "safe": st.just(safe),
        })
    return s


def _bursts():
    """2..3 writes to one key only 0..4 ticks apart (closer together than a slow tail's write latency)."""
    burst = st.fixed_dictionaries({"t0": st.integers(0, 24), "k": st.sampled_from([0, 0, 1]),
                                   "gaps": st.lists(st.integers(0, 4), min_size=1, max_size=2)})

    def flat(bs):
        out = []
        for b in bs:
            t = b["t0"]
            out.append({"t": t, "k": b["k"]})
            for g in b["gaps"]:
                t += g
                out.append({"t": t, "k": b["k"]})
        return out
    return st.lists(burst, min_size=1, max_size=3).map(flat)


def chain_strategy(craq, safe):
    def s(tier):
        names = [f"c{i}" for i in range(4)]
        links = [f"{a}>{b}" for a in names for b in names if a != b]
        reads = st.lists(st.fixed_dictionaries({
            "t": st.integers(0, 60), "k": st.sampled_from([0, 0, 1, 2]), "node": st.integers(0, 3)}),
            max_size=6)
        # dense read scan: one read per (half) tick at every node, starting `off` ticks after the first write
        scan = st.none() | st.fixed_dictionaries({"k": st.sampled_from([0, 0, 1]), "off": st.integers(0, 30),
                                                  "n": st.integers(6, 32), "half": st.booleans()})
        writes = _writes(tier) if (safe or not craq) else st.one_of(_writes(tier), _bursts(), _bursts())
        return st.fixed_dictionaries({
            "n": st.integers(2, 4), "craq": st.just(craq),
            "wl": st.lists(st.integers(0, 4), max_size=4), "rl": st.integers(0, 3),
            # slow tail: its write latency is drawn independently (None = like the other nodes)
            "twl": st.sampled_from([None, None, 5, 6, 8, 10, 12, 16]),
            "writes": writes, "reads": reads, "scan": scan if craq else st.none(),
            "delays": _delays(links), "safe": st.just(safe),
        })
    return s


def _duels():
    """First writes of a fresh key on two (or three) different leaders only 0..8 ticks apart, so a peer's
    Replicate for the brand-new key lands while the local write of that key is still inside its store latency."""
    duel = st.fixed_dictionaries({"k": st.integers(0, 4), "t0": st.integers(0, 40), "gap": st.integers(0, 8),
                                  "la": st.integers(0, 2), "third": st.sampled_from([None, None, 0, 2, 5])})

    def flat(ds):
        out = []
        for d in ds:
            out.append({"t": d["t0"], "k": d["k"], "leader": d["la"]})
            out.append({"t": d["t0"] + d["gap"], "k": d["k"], "leader": d["la"] + 1})
            if d["third"] is not None:
                out.append({"t": d["t0"] + d["third"], "k": d["k"], "leader": d["la"] + 2})
        return out
    return st.lists(duel, min_size=1, max_size=4, unique_by=lambda d: d["k"]).map(flat)


def ml_strategy(safe):
    def s(tier):
        names = [f"L{i}" for i in range(3)]
        links = [f"{a}>{b}" for a in names for b in names if a != b]
        scattered = _writes(tier, {"leader": st.integers(0, 2), "t": st.integers(0, 24) | st.integers(0, 200),
                                   "k": st.sampled_from([0, 0, 0, 1, 2, 3, 4])})
        return st.fixed_dictionaries({
            "n": st.integers(2, 3), "resolver": st.sampled_from(["lww", "vc"]),
            "wl": st.lists(st.integers(0, 8), max_size=3),
            "ae": st.sampled_from([0, 1, 2]), "picks": st.lists(st.integers(0, 3), max_size=8),
            "writes": scattered if safe else st.one_of(scattered, _duels(), _duels()),
            "delays": _delays(links), "safe": st.just(safe),
        })
    return s


def rs_strategy(safe):
    def s(tier):
        op = st.fixed_dictionaries({"op": st.sampled_from(["put", "put", "put", "del", "get"]),
                                    "k": st.sampled_from([0, 0, 1]), "think": st.integers(0, 3)})
        proc = st.fixed_dictionaries({"t": st.integers(0, 12), "ops": st.lists(op, min_size=1, max_size=4)})
        lat = st.fixed_dictionaries({"r": st.integers(0, 3), "w": st.integers(0, 4), "d": st.integers(0, 4)})
        return st.fixed_dictionaries({
            "lat": st.lists(lat, min_size=2, max_size=4),
            "rc": st.integers(0, 2), "wc": st.integers(0, 2),
            "procs": st.lists(proc, min_size=1, max_size=4), "safe": st.just(safe),
        })
    return s


# ------------------------------------------------------------------------------ helpers
def _plan_writes(case, safe):
    """-> list of (t_ticks, key, value, raw) sorted by nothing (schedule order = list order)."""
    out = []
    per_key = {}
    for i, w in enumerate(_lst(case.get("writes"))[:12]):
        if not isinstance(w, dict):
            continue
        k = KEYS[_n(w.get("k"), 0, 2)]
        t = _n(w.get("t"), 0, 60)
        if safe:
            m = per_key.get(k, 0)
            per_key[k] = m + 1
            t = m * GAP + t % 8
        out.append((t, k, f"v{i}", w))
    return out


def _wl(case, i, safe):
    w = _n(cyc(case.get("wl"), i, 1), 0, 4)
    return max(w, 1) if safe else w


class SeqMap:
    """value -> (key, seq) from the order in which the primary/head processed the Write events."""

    def __init__(self):
        self.seq = {}
        self.key = {}
        self.n = 0

    def note(self, key, value):
        if value not in self.seq:
            self.n += 1
            self.seq[value] = self.n
            self.key[value] = key

    def geq(self, v, key, s):
        return v is not ABSENT and self.key.get(v) == key and self.seq.get(v, 0) >= s


def _judge_ack(r, obl, mode_tag, watch, sm, replicas, key, value, t, need_all):
    """Ack clause at the resolution instant t of the write (key, value)."""
    s = sm.seq.get(value)
    if s is None:
        return
    holds = {n: sm.geq(watch.current(n, key), key, s) for n in replicas}
    ever = {n: any(sm.geq(v, key, s) for v in watch.values_until(n, key, t)) for n in replicas}
    if need_all:
        bad = [n for n in replicas if not holds[n]]
    else:
        bad = [] if any(holds.values()) else list(replicas)
        if bad and any(ever.values()):       # semi-sync: one replica had it -> only the stale cause applies
            bad = [n for n in bad if ever[n]]
    for n in bad:
        cause = "ack-superseded-by-stale" if ever[n] else "ack-before-applied"
        r.add(f"{P}/{obl}/{cause}/{mode_tag}",
              f"write {value} (key {key}, seq {s}) acknowledged at {t} ns while {n} holds "
              f"{watch.current(n, key)!r}; history {watch.hist[n][key][-4:]}")


def _judge_convergence(r, obl, watch, ref, others, arrivals):
    """Every replica in ``others`` must hold what ``ref`` (primary / head) holds, key by key. The cause
    class is a function of the replica's own delivery history: did it receive two replication
    messages for that key in inverted sequence order?"""
    for k in watch.keys:
        want = watch.current(ref, k)
        for n in others:
            got = watch.current(n, k)
            if got != want:
                inv = k in rn.inversions(arrivals.get(n, []))
                cause = "reordered-delivery" if inv else "in-order-delivery"
                r.add(f"{P}/{obl}/diverged/{cause}",
                      f"key {k} at quiescence: {ref}={want!r} but {n}={got!r}; arrivals at {n}: "
                      f"{[a for a in arrivals.get(n, []) if a[0] == k][-6:]}")


def _finish(r, status, obl):
    if status == "spin":
        r.add(f"{P}/{obl}/spin", "unbounded deliveries at one instant")
        return False
    if status == "budget":
        r.labels.append("inconclusive-budget")
        return False
    return True


# ------------------------------------------------------------------------------ primary-backup
def ex_pb(case):
    from happysimulator import Instant, Simulation
    from happysimulator.components.replication.primary_backup import BackupNode, PrimaryNode, ReplicationMode
    from happysimulator.core.event import ProcessContinuation
    from happysimulator.core.sim_future import SimFuture

    safe = bool(case.get("safe"))
    obl = "primary-backup-safe" if safe else "primary-backup"
    r = Result()
    mode_i = _n(case.get("mode"), 0, 2)
    mode = [ReplicationMode.ASYNC, ReplicationMode.SEMI_SYNC, ReplicationMode.SYNC][mode_i]
    tag = ["async", "semi-sync", "sync"][mode_i]
    nb = _n(case.get("nb"), 1, 3)
    net = rn.Net(case.get("delays"))
    pstore = rn.kv("p_store", 1, _wl(case, 0, safe))
    backups = [BackupNode(f"b{i}", rn.kv(f"b{i}_store", 1, _wl(case, i + 1, safe)), net.net, primary=None)
               for i in range(nb)]
    prim = PrimaryNode("p", pstore, backups, net.net, mode=mode)
    for b in backups:
        b._primary = prim                       # the constructor cycle is closed this way in the repo's tests
        net.link(prim, b)
        net.link(b, prim)
    writes = _plan_writes(case, safe)
    stores = {"p": pstore, **{b.name: b.store for b in backups}}
    watch = rn.Watch(stores, KEYS)
    sim = Simulation(entities=[net.net, prim, *backups, *stores.values()], end_time=Instant(4000 * TICK))
    sm = SeqMap()
    arrivals = {b.name: [] for b in backups}
    bnames = [b.name for b in backups]

    def on_resolved(f, t):
        key, value = f[0]
        rep = f[1].value
        if not isinstance(rep, dict) or rep.get("seq") != sm.seq.get(value):
            r.labels.append("seqmap-mismatch")
            return
        if mode_i == 2:
            _judge_ack(r, obl, tag, watch, sm, bnames, key, value, t, True)
        elif mode_i == 1:
            _judge_ack(r, obl, tag, watch, sm, bnames, key, value, t, False)

    base_on_event = watch.on_event

    def on_event(event):
        if isinstance(event, ProcessContinuation):           # resumption of a process, not a delivery
            return base_on_event(event)
        if event.event_type == "Write" and event.target is prim:
            md = event.context.get("metadata", {})
            sm.note(md.get("key"), md.get("value"))
        elif event.event_type == "Replicate" and getattr(event.target, "name", None) in arrivals:
            md = event.context.get("metadata", {})
            arrivals[event.target.name].append((md.get("key"), md.get("seq", 0)))
        base_on_event(event)

    watch.on_resolved = on_resolved
    watch.on_event = on_event
    for t, k, v, _ in writes:
        fut = SimFuture()
        watch.watch_future((k, v), fut)
        sim.schedule(rn.ev(t, "Write", prim, key=k, value=v, reply_future=fut))
    status, _probe = rn.run(sim, watch, len(writes) * (nb + 1))
    inv = any(rn.inversions(a) for a in arrivals.values())
    if _finish(r, status, obl):
        _judge_convergence(r, obl, watch, "p", bnames, arrivals)
    unacked = sum(1 for f in watch.futs if f[2] is None)
    r.nontrivial = (len({k for _, k, _, _ in writes}) < len(writes)) if safe else inv
    r.labels += [tag, "inversion" if inv else "in-order", "unacked" if unacked else "all-acked"]
    r.target = float(sum(len(rn.inversions(a)) for a in arrivals.values()))
    return r


# ------------------------------------------------------------------------------ chain / CRAQ
def ex_chain(case):
    from happysimulator import Event, Instant, Simulation
    from happysimulator.components.replication.chain_replication import build_chain
    from happysimulator.core.event import ProcessContinuation
    from happysimulator.core.sim_future import SimFuture

    safe = bool(case.get("safe"))
    craq = bool(case.get("craq"))
    obl = ("craq" if craq else "chain") + ("-safe" if safe else "")
    r = Result()
    n = _n(case.get("n"), 2, 4)
    names = [f"c{i}" for i in range(n)]
    rl = 0 if (safe and craq) else _n(case.get("rl"), 0, 3)
    net = rn.Net(case.get("delays"))
    idx = {f"{nm}_store": i for i, nm in enumerate(names)}
    twl = case.get("twl")
    twl = _n(twl, 1, 16) if isinstance(twl, (int, float)) and not isinstance(twl, bool) else None

    def node_wl(i):
        return twl if (twl is not None and i == n - 1) else _wl(case, i, safe)

    nodes = build_chain(names, net.net, lambda sn: rn.kv(sn, rl, node_wl(idx[sn])), craq_enabled=craq)
    head, tail = nodes[0], nodes[-1]
    for a, b in zip(nodes, nodes[1:]):
        net.link(a, b)
    for nd in nodes[:-1]:
        net.link(tail, nd)                      # WriteAck to the head, CommitNotify upstream
        net.link(nd, tail)                      # CRAQ: dirty reads are forwarded to the tail
    stores = {nd.name: nd.store for nd in nodes}
    watch = rn.Watch(stores, KEYS)
    sim = Simulation(entities=[net.net, *nodes, *stores.values()], end_time=Instant(4000 * TICK))
    sm = SeqMap()
    arrivals = {nm: [] for nm in names[1:]}
    writes = _plan_writes(case, safe)
    reads = []
    for i, rd in enumerate(_lst(case.get("reads"))[:8]):
        if not isinstance(rd, dict):
            continue
        node = nodes[_n(rd.get("node"), 0, 3) % n] if craq else tail
        t = _n(rd.get("t"), 0, 60)
        if safe:
            t = (t % 3) * GAP + (t // 3) % 24
        reads.append((t * TICK + (1000 if safe else 0), KEYS[_n(rd.get("k"), 0, 2)], node))
    sc = case.get("scan")
    if isinstance(sc, dict) and writes:
        k = KEYS[_n(sc.get("k"), 0, 2)]
        start = (min(t for t, *_ in writes) + _n(sc.get("off"), 0, 60)) * TICK + (1000 if safe else 0)
        step = TICK // 2 if sc.get("half") else TICK
        for j in range(_n(sc.get("n"), 1, 32)):
            for nd in (nodes if craq else [tail]):
                reads.append((start + j * step, k, nd))
    read_arrival = {}                           # id(future) -> (first node, t_ns of first processing)
    overlap_reads = [0]
    pending = {k: set() for k in KEYS}          # writes the head has accepted and not yet acknowledged
    crowded_reads = [0]                         # reads arriving while >= 2 writes to their key are unacknowledged

    def on_resolved(f, t):
        kind, key, value, node = f[0]
        rep = f[1].value
        if kind == "w":
            pending.get(key, set()).discard(value)
            if not isinstance(rep, dict) or rep.get("status") != "ok" or rep.get("seq") != sm.seq.get(value):
                r.labels.append("seqmap-mismatch")
                return
            _judge_ack(r, obl, "craq" if craq else "plain", watch, sm, names, key, value, t, True)
        else:
            if not isinstance(rep, dict) or rep.get("status") != "ok":
                r.labels.append("read-not-ok")
                return
            v = rep.get("value")
            if v in watch.values_until(tail.name, key, t):
                return
            _, t_arr, held = read_arrival.get(id(f[1]), (None, None, None))
            t_v = watch.first_time(node.name, key, v)
            if t_v is None or t_arr is None:
                cause = "value-never-at-contacted-node"
            elif held == v:
                cause = "clean-while-uncommitted"      # the node held v when it judged the key clean
            else:
                cause = "applied-during-read"          # v was applied after the dirty check, before the local read
            r.add(f"{P}/{obl}/read-uncommitted/{cause}",
                  f"read of {key} at {node.name} (arrived {t_arr} ns) replied {v!r} at {t} ns; tail history "
                  f"{watch.hist[tail.name][key]}; {node.name} history {watch.hist[node.name][key]}")

    base_on_event = watch.on_event

    def on_event(event):
        if isinstance(event, ProcessContinuation):
            return base_on_event(event)
        et = event.event_type
        if et == "Write" and event.target is head:
            md = event.context.get("metadata", {})
            sm.note(md.get("key"), md.get("value"))
            if md.get("key") in pending and not md.get("reply_future").is_resolved:
                pending[md.get("key")].add(md.get("value"))
        elif et == "Propagate" and getattr(event.target, "name", None) in arrivals:
            md = event.context.get("metadata", {})
            arrivals[event.target.name].append((md.get("key"), md.get("seq", 0)))
        elif et == "Read" and getattr(event.target, "name", None) in stores:
            fut = event.context.get("metadata", {}).get("reply_future")
            if fut is not None and id(fut) not in read_arrival:
                k = event.context.get("metadata", {}).get("key")
                read_arrival[id(fut)] = (event.target.name, event.time.nanoseconds, event.target.store.get_sync(k))
                if k in KEYS and len({watch.current(nm, k) for nm in names}) > 1:
                    overlap_reads[0] += 1
                if len(pending.get(k, ())) >= 2:
                    crowded_reads[0] += 1
        base_on_event(event)

    watch.on_resolved = on_resolved
    watch.on_event = on_event
    for t, k, v, _ in writes:
        fut = SimFuture()
        watch.watch_future(("w", k, v, head), fut)
        sim.schedule(rn.ev(t, "Write", head, key=k, value=v, reply_future=fut))
    for t, k, node in reads:
        fut = SimFuture()
        watch.watch_future(("r", k, None, node), fut)
        sim.schedule(Event(time=Instant(t), event_type="Read", target=node,
                           context={"metadata": {"key": k, "reply_future": fut}}))
    status, _probe = rn.run(sim, watch, (len(writes) + len(reads)) * n)
    inv = any(rn.inversions(a) for a in arrivals.values())
    if _finish(r, status, obl):
        _judge_convergence(r, obl, watch, names[0], names[1:], arrivals)
    unacked = sum(1 for f in watch.futs if f[2] is None)
    if safe:
        r.nontrivial = len({k for _, k, _, _ in writes}) < len(writes) and (not craq or overlap_reads[0] > 0 or bool(reads))
    elif craq:
        r.nontrivial = inv or overlap_reads[0] > 0 or crowded_reads[0] > 0
    else:
        r.nontrivial = inv
    r.labels += [f"n{n}", "inversion" if inv else "in-order", "unacked" if unacked else "all-acked",
                 "read-during-write" if overlap_reads[0] else "no-read-during-write",
                 "read-with-2-writes-pending" if crowded_reads[0] else "no-crowded-read",
                 "slow-tail" if twl is not None and twl > 4 else "even-latencies"]
    if craq and not safe:
        r.target = float(min(crowded_reads[0], 40)) + float(inv)
    else:
        r.target = float(sum(len(rn.inversions(a)) for a in arrivals.values()) + overlap_reads[0])
    return r


# ------------------------------------------------------------------------------ multi-leader
AE_TICKS = [128, 160, 192]
ML_KEYS = ["k0", "k1", "k2", "k3", "k4"]
ML_WL = 8                      # largest store write latency (ticks) in the multi-leader runs


def ex_ml(case):
    from happysimulator import Event, Instant, Simulation
    from happysimulator.components.replication import multi_leader as ml_mod
    from happysimulator.components.replication.conflict_resolver import LastWriterWins, VectorClockMerge
    from happysimulator.core.event import ProcessContinuation
    from happysimulator.core.sim_future import SimFuture

    safe = bool(case.get("safe"))
    obl = "multi-leader-safe" if safe else "multi-leader"
    r = Result()
    n = _n(case.get("n"), 2, 3)
    res_name = case.get("resolver") if case.get("resolver") in ("lww", "vc") else "lww"
    ae = AE_TICKS[_n(case.get("ae"), 0, 2)]
    net = rn.Net(case.get("delays"))
    mk_res = (lambda: LastWriterWins()) if res_name == "lww" else (lambda: VectorClockMerge())
    def wl(i):
        w = _n(cyc(case.get("wl"), i, 1), 0, ML_WL)
        return max(w, 1) if safe else w

    leaders = [ml_mod.LeaderNode(f"L{i}", store=rn.kv(f"L{i}_store", 1, wl(i)), network=net.net,
                                 conflict_resolver=mk_res(), anti_entropy_interval=ae / 512)
               for i in range(n)]
    for ld in leaders:
        ld.add_peers([x for x in leaders if x is not ld])
    for a in leaders:
        for b in leaders:
            if a is not b:
                net.link(a, b)
    names = [ld.name for ld in leaders]
    stores = {ld.name: ld.store for ld in leaders}
    watch = rn.Watch(stores, ML_KEYS)
    keep = rn.keeper()
    writes = []
    per_key = {}
    for i, w in enumerate(_lst(case.get("writes"))[:12]):
        if not isinstance(w, dict):
            continue
        k = ML_KEYS[_n(w.get("k"), 0, 4)]
        t = _n(w.get("t"), 0, 200)
        if safe:
            m = per_key.get(k, 0)
            per_key[k] = m + 1
            t = m * GAP + t % 8
        writes.append((t, k, f"v{i}", leaders[_n(w.get("leader"), 0, 5) % n]))
    t_last = max([t for t, *_ in writes], default=0)
    t_quiet = t_last + ML_WL + DMAX + ML_WL + 1                       # every Replicate delivered and applied
    rounds = 4 * (n - 1) + 2
    t_end = (t_quiet // ae + 1 + rounds) * ae + ae // 2
    sim = Simulation(entities=[net.net, keep, *leaders, *stores.values()], end_time=Instant(t_end * TICK))
    arrivals = {nm: [] for nm in names}        # (key, (writer, vc[writer])) per Replicate arrival
    by_name = dict(zip(names, leaders))
    rep_at = {}                                # (value, leader) -> arrival t_ns of the Replicate
    write_at = {}
    inprog = {}                                # (leader, key) -> local writes started, reply future unresolved
    during_put = [0]                           # Replicates for a key arriving while a local write of it is in its put
    fresh_during_put = [0]                     # ... and the leader advertises no version for the key yet

    def on_resolved(f, t):
        ldn, k = f[0]
        inprog[(ldn, k)] = inprog.get((ldn, k), 1) - 1

    watch.on_resolved = on_resolved

    base_on_event = watch.on_event

    def on_event(event):
        if isinstance(event, ProcessContinuation):
            return base_on_event(event)
        et = event.event_type
        tn = getattr(event.target, "name", None)
        if et == "Replicate" and tn in arrivals:
            md = event.context.get("metadata", {})
            w = md.get("writer_id")
            arrivals[tn].append((f"{md.get('key')}|{w}", (md.get("vector_clock") or {}).get(w, 0)))
            rep_at[(md.get("value"), tn)] = event.time.nanoseconds
            if inprog.get((tn, md.get("key")), 0) > 0:
                during_put[0] += 1
                if md.get("key") not in by_name[tn].versions or by_name[tn].store.get_sync(md.get("key")) is None:
                    fresh_during_put[0] += 1
        elif et == "Write" and tn in arrivals:
            md = event.context.get("metadata", {})
            write_at[md.get("value")] = (event.time.nanoseconds, tn, md.get("key"))
            if not md.get("reply_future").is_resolved:
                inprog[(tn, md.get("key"))] = inprog.get((tn, md.get("key")), 0) + 1
        base_on_event(event)

    watch.on_event = on_event
    shim = rn.PeerShim(0, case.get("picks"))
    with patched_random(shim, ml_mod):
        for t, k, v, ld in writes:
            fut = SimFuture()
            watch.watch_future((ld.name, k), fut)
            sim.schedule(rn.ev(t, "Write", ld, key=k, value=v, reply_future=fut))
        for ld in leaders:
            e = ld.get_anti_entropy_event()
            if e is not None:
                sim.schedule(e)
        sim.schedule(Event(time=Instant(t_end * TICK), event_type="KeepAlive", target=keep))
        status, _probe = rn.run(sim, watch, (len(writes) + rounds) * n * n)
    inv = any(rn.inversions(a) for a in arrivals.values())
    # concurrent writes to one key on two leaders: neither had received the other's Replicate when it wrote
    conc_keys = set()
    ws = sorted(write_at.items(), key=lambda kv: kv[0])
    for v1, (t1, l1, k1) in ws:
        for v2, (t2, l2, k2) in ws:
            if v1 < v2 and k1 == k2 and l1 != l2:
                a = rep_at.get((v1, l2))
                b = rep_at.get((v2, l1))
                if (a is None or a > t2) and (b is None or b > t1):
                    conc_keys.add(k1)
    conc = bool(conc_keys)
    if _finish(r, status, obl):
        syncs = min(ld.stats.anti_entropy_syncs for ld in leaders)
        if syncs < rounds:
            r.labels.append("inconclusive-few-ae-rounds")
        else:
            for k in ML_KEYS:
                vals = {nm: watch.current(nm, k) for nm in names}
                # not a clause (the statement speaks of the values the replicas hold): recorded as a label only
                if any(getattr(ld.versions.get(k), "value", None) != vals[ld.name] for ld in leaders):
                    r.labels.append("store-differs-from-advertised-version")
                if len(set(vals.values())) > 1:
                    cause = "concurrent-writes" if k in conc_keys else "causal-writes"
                    r.add(f"{P}/{obl}/diverged/{cause}/{res_name}",
                          f"key {k} after {syncs} anti-entropy rounds per node ({rounds} after the last delivery): {vals}; "
                          f"versions {[(nm, getattr(ld.versions.get(k), 'timestamp', None), getattr(ld.versions.get(k), 'writer_id', None)) for nm, ld in zip(names, leaders)]}")
    # did the replicas still disagree when every Replicate had been delivered (anti-entropy had work to do)?
    tq = t_quiet * TICK
    needed_ae = any(len({watch.values_until(nm, k, tq)[-1] for nm in names}) > 1 for k in ML_KEYS)
    r.nontrivial = (conc or inv or during_put[0] > 0) if not safe else len({k for _, k, _, _ in writes}) < len(writes)
    r.labels += [res_name, f"n{n}", "concurrent" if conc else "causal", "inversion" if inv else "in-order",
                 "ae-had-to-repair" if needed_ae else "converged-before-ae-tail",
                 "replicate-during-local-put" if during_put[0] else "no-replicate-during-local-put",
                 "fresh-key-replicate-during-local-put" if fresh_during_put[0] else "no-fresh-key-race"]
    r.target = float(conc) + float(inv) + 2.0 * min(during_put[0], 6) + 3.0 * min(fresh_during_put[0], 6)
    return r


# ------------------------------------------------------------------------------ ReplicatedStore
def ex_rs(case):
    from happysimulator import Instant, Simulation
    from happysimulator.components.datastore.replicated_store import ConsistencyLevel, ReplicatedStore
    from happysimulator.core.entity import Entity

    safe = bool(case.get("safe"))
    obl = "replicated-store-safe" if safe else "replicated-store"
    r = Result()
    lats = [x for x in _lst(case.get("lat")) if isinstance(x, dict)][:4]
    while len(lats) < 2:
        lats.append({"r": 1, "w": 1, "d": 1})
    reps = []
    for i, la in enumerate(lats):
        w = _n(la.get("w"), 0, 4)
        d = w if safe else _n(la.get("d"), 0, 4)
        reps.append(rn.kv(f"r{i}", _n(la.get("r"), 0, 3), w, d))
    levels = [ConsistencyLevel.ONE, ConsistencyLevel.QUORUM, ConsistencyLevel.ALL]
    rs = ReplicatedStore("rs", reps, read_consistency=levels[_n(case.get("rc"), 0, 2)],
                         write_consistency=levels[_n(case.get("wc"), 0, 2)])
    oplog = []                                  # (client, key, op, start_ns, end_ns, result)

    class Client(Entity):
        def __init__(self, name, ops):
            super().__init__(name)
            self.ops = ops

        def handle_event(self, event):
            for j, o in enumerate(self.ops):
                k = KEYS[_n(o.get("k"), 0, 2)]
                th = _n(o.get("think"), 0, 3)
                if th:
                    yield th / 512
                t0 = self.now.nanoseconds
                if o.get("op") == "del":
                    res = yield from rs.delete(k)
                    kind = "del"
                elif o.get("op") == "get":
                    res = yield from rs.get(k)
                    kind = "get"
                else:
                    res = yield from rs.put(k, f"{self.name}.{j}")
                    kind = "put"
                oplog.append((self.name, k, kind, t0, self.now.nanoseconds, res))

    clients = []
    procs = [p for p in _lst(case.get("procs")) if isinstance(p, dict)][:4]
    for i, p in enumerate(procs):
        ops = [o for o in _lst(p.get("ops")) if isinstance(o, dict)][:5]
        clients.append((Client(f"c{i}", ops), _n(p.get("t"), 0, 40)))
    stores = {rp.name: rp for rp in reps}
    watch = rn.Watch(stores, KEYS)
    sim = Simulation(entities=[rs, *reps, *[c for c, _ in clients]], end_time=Instant(4000 * TICK))
    for c, t in clients:
        sim.schedule(rn.ev(t, "Go", c))
    status, _probe = rn.run(sim, watch, sum(len(c.ops) for c, _ in clients) * len(reps) + 4)
    muts = [o for o in oplog if o[2] != "get"]

    def overlapping(k, kinds):
        for a in muts:
            for b in muts:
                if a is not b and a[0] != b[0] and a[1] == b[1] == k and {a[2], b[2]} == kinds \
                        and a[3] <= b[4] and b[3] <= a[4]:
                    return True
        return False

    nt = False
    if _finish(r, status, obl):
        for k in KEYS:
            vals = {n: watch.current(n, k) for n in stores}
            pd, pp = overlapping(k, {"put", "del"}), overlapping(k, {"put"})
            nt = nt or pd or pp
            if len(set(vals.values())) > 1:
                cause = "put-delete-overlap" if pd else ("put-put-overlap" if pp else "no-overlap")
                r.add(f"{P}/{obl}/diverged/{cause}", f"key {k} at quiescence: {vals}; ops {[o for o in muts if o[1] == k]}")
    r.nontrivial = nt
    r.labels += [f"n{len(reps)}", "overlap" if nt else "no-overlap"]
    r.target = float(nt)
    return r


# ------------------------------------------------------------------------------ obligations
_RULE_NET = ("real components over a real Network whose per-message link delays (0..16 ticks of 1/512 s) come from "
             "the case, so replication messages for one key overtake each other; 1..7 writes on 3 keys (mostly one key) "
             "at times 0..24 ticks; store latencies 0..4 ticks. ")

OBLIGATIONS = [
    Obligation("primary-backup", pb_strategy(False), ex_pb, {"quick": 520, "thorough": 100000},
               _RULE_NET + "PrimaryNode + 1..3 BackupNodes in ASYNC/SEMI_SYNC/SYNC; ack clause judged at the instant "
               "each reply future resolves, convergence at quiescence. Non-trivial = at some backup two Replicate "
               "messages for one key were delivered in inverted seq order."),
    Obligation("primary-backup-safe", pb_strategy(True), ex_pb, {"quick": 260, "thorough": 40000},
               "same model, restricted domain: consecutive writes to one key are 128 ticks apart (never two in flight), "
               "write latency >= 1 tick; no exclusions. Non-trivial = some key written at least twice."),
    Obligation("chain", chain_strategy(False, False), ex_chain, {"quick": 340, "thorough": 80000},
               _RULE_NET + "build_chain of 2..4 ChainNodes (plain), reads sent to the tail; ack clause at every node, "
               "reads against the tail's value history, convergence at quiescence. Non-trivial = inverted Propagate "
               "delivery for one key at some node."),
    Obligation("chain-safe", chain_strategy(False, True), ex_chain, {"quick": 220, "thorough": 40000},
               "plain chain, restricted domain: writes to one key 128 ticks apart; no exclusions. Non-trivial = some "
               "key written at least twice."),
    Obligation("craq", chain_strategy(True, False), ex_chain, {"quick": 520, "thorough": 100000},
               _RULE_NET + "CRAQ chain of 2..4 nodes, tail write latency drawn independently (slow tail up to 16 ticks), "
               "writes either scattered or in bursts of 2..3 to one key 0..4 ticks apart (applications overlap at the tail), "
               "up to 6 scattered reads plus an optional dense scan (one read per tick or half tick at every node for 6..32 "
               "steps after the first write); hypothesis.target = reads arriving while >= 2 writes to their key are "
               "unacknowledged. Non-trivial = inverted Propagate delivery, a read arriving while the nodes disagree on its "
               "key, or a read arriving with >= 2 writes to its key pending."),
    Obligation("craq-safe", chain_strategy(True, True), ex_chain, {"quick": 260, "thorough": 40000},
               "CRAQ, restricted domain: writes to one key 128 ticks apart, read latency 0 and reads issued 1000 ns off the "
               "tick grid (dirty check and local read atomic); reads placed around the writes; no exclusions. Non-trivial = some "
               "key written twice and at least one read."),
    Obligation("multi-leader", ml_strategy(False), ex_ml, {"quick": 340, "thorough": 60000},
               _RULE_NET + "2..3 LeaderNodes (LWW or vector-clock resolver), writers on different leaders (write times up to "
               "200 ticks, so anti-entropy rounds interleave with writes), same-instant writes included; anti-entropy from the start (interval 128/160/192 ticks, peer picks from the case then "
               "round-robin) and 4(n-1)+2 more rounds after the last delivery. Non-trivial = two writes to one key on "
               "different leaders, each made before the other's Replicate arrived, or inverted delivery."),
    Obligation("multi-leader-safe", ml_strategy(True), ex_ml, {"quick": 150, "thorough": 24000},
               "multi-leader, restricted domain: writes to one key 128 ticks apart (no concurrent writes). "
               "Non-trivial = some key written at least twice."),
    Obligation("replicated-store", rs_strategy(False), ex_rs, {"quick": 520, "thorough": 100000},
               "ReplicatedStore over 2..4 KVStore replicas with independent read/write/delete latencies (0..4 ticks) and "
               "every consistency level; 1..4 client processes start at 0..12 ticks and issue put/delete/get on 2 keys. "
               "Non-trivial = two clients' mutations of one key overlap in time."),
    Obligation("replicated-store-safe", rs_strategy(True), ex_rs, {"quick": 260, "thorough": 40000},
               "same, restricted domain: delete_latency == write_latency on every replica (all mutations of one client "
               "advance through the replicas at the same pace). Non-trivial = overlapping mutations of one key."),
]
