"""C12 — Paxos-family protocols decide at most one value per instance, and a proposed one.

Every obligation runs the real protocol entities over ``dsl.paxosnet.Cluster`` (scripted per-message delays,
loss, partitions; all protocol randomness served from the case) and judges

* state clauses after **every** processed event from the public properties (``is_decided``/``decided_value``;
  ``log``/``commit_index``; a recording state machine; ``current_term``/``current_leader``; lock grants), and
* mechanism clauses from the observed message stream (a1, p1, p2, p3, d1, d2 of DESIGN C12), each with its own
  signature, so that a break of one mechanism is told apart from another one that is an open finding.
"""
from __future__ import annotations

from hypothesis import strategies as st

from ..dsl.paxosnet import (Cluster, as_int, as_list, clampi, field, meta, net_strategy, quiet_net_strategy)
from ..harness import TICK, RandomShim
from ..runner import Obligation, Result

P = "C12"
ASSUMPTIONS = [
    "the network never duplicates or corrupts a message (the Network component cannot); it delays, reorders, drops and partitions",
    "clients propose pairwise distinct non-None values, including values that are falsy in Python (0, '', False, (), 0.0; at most one of 0/False/0.0 per history because they compare equal) (None means 'undecided' in the public API); a client calls propose() followed by start_phase1() as the docstring prescribes, possibly several times on one node",
    "p2 is judged permissively about the proposer's own acceptor state (only message-visible facts are used): the value may follow the peers' promises alone or the peers' promises plus any value the proposer itself may have accepted earlier",
    "p3/d1 count the proposer itself as one promiser/acceptor (its self-promise/self-accept is not visible on the network)",
    "Multi/Flexible Paxos: an instance is a log slot; a node 'reports a decision' for slot i while i <= log.commit_index; commands are pairwise distinct strings; commands reach a leader through submit() before leadership, through submit() followed by the replication call used by examples/distributed/flexible_paxos_quorums.py, or (Multi-Paxos) through a MultiPaxosForward event",
    "hand-over obligations: fault-free FIFO network, the challenger starts after the first leader's commit was announced (earlier the open finding stability-commit-index-decreased occurs), the client uses plain submit() on the old leader; only state clauses and the liveness of the commands handed to the two elected leaders are judged there (p2 and slot-keyed futures are open findings in that domain too)",
    "liveness is judged only fault-free with delays <= 8 ticks and a horizon of 12 maximal delays (+ heartbeats where commit propagation needs one)",
    "lock: at most one holder is judged on client-visible leases: a grant is live until it is released with its token or until granted_at + lease_duration (2 ns tolerance); lease expiry events are scheduled by the caller as in the repo's tests",
    "election: members are given to every node at construction; optional late joiners are registered with add_member() on every node at one instant before they start",
]

END_TICKS = 1536            # 3 s of simulated time per history


def ballot_of(m, num="ballot_number", node="ballot_node"):
    return (as_int(m.get(num), -1), str(m.get(node)))


def short(x):
    return repr(x)[:60]


# Values that are falsy in Python are legitimate proposals ("all proposed values"); the oracles below never test the
# truthiness of a value and only ``None`` means "no value". 0, False and 0.0 compare equal, so at most one of them is used
# per history (values must be pairwise distinct under ==).
FALSY = [0, "", False, (), 0.0]
VALSEL = st.sampled_from([0, 0, 0, 0, 1, 2, 3, 4, 5])


def pick_value(sel, k, prefix, used):
    """k-th value of a history: selector 0 -> the string f'{prefix}{k}', 1..5 -> a falsy value (if still distinct)."""
    i = as_int(sel) % (len(FALSY) + 1)
    val = f"{prefix}{k}"
    if i:
        cand = FALSY[i - 1]
        if not any(u == cand for u in used):
            val = cand
    used.append(val)
    return val


# =============================================================================== single-decree Paxos
class PaxosJudge:
    """Mechanism + state clauses for PaxosNode histories (pure function of the observed history)."""

    def __init__(self, r, obl, nodes, quorum):
        self.r, self.obl, self.nodes, self.q = r, obl, nodes, quorum
        self.names = {x.name for x in nodes}
        self.proposed = []            # values handed to propose(), in order
        self.futures = []             # (node name, value, SimFuture)
        self.ballots = {}             # ballot -> dict
        self.maxprom = {}             # acceptor -> highest ballot it answered with Promise/Accepted
        self.maxacc = {}              # acceptor -> (highest ballot it answered with Accepted, value)
        self.selfacc = {x.name: [] for x in nodes}   # (ballot, value) the node may have accepted
        self.seen = {}                # node -> first reported decision
        self.first = None             # (node, value) first decision reported by anybody
        self.sig = set()
        self.late = 0
        self.started = []             # ballots in order of first Prepare
        self.decided_by = {}          # node -> 'own'|'learned'

    def v(self, clause, detail):
        s = f"{P}/{self.obl}/{clause}"
        if s not in self.sig:
            self.sig.add(s)
            self.r.add(s, detail)

    def b(self, ballot):
        d = self.ballots.get(ballot)
        if d is None:
            d = self.ballots[ballot] = {"promises": [], "accept_values": [], "accepted_from": [], "p2_snapshot": None,
                                        "prepared": False}
        return d

    # ---- one processed event ------------------------------------------------------------------
    def step(self, ev, out):
        m = meta(ev)
        et = ev.event_type
        tgt = getattr(ev.target, "name", None)
        delivered = tgt in self.names and "source" in m
        if delivered and "ballot_number" in m:
            bal = ballot_of(m)
            if any(b2 > bal for b2 in self.started if self.ballots[b2]["prepared"]):
                self.late += 1
            if et == "PaxosPromise" and tgt == bal[1]:
                ab = None
                if m.get("accepted_ballot_number") is not None:
                    ab = (as_int(m.get("accepted_ballot_number"), -1), str(m.get("accepted_ballot_node")))
                self.b(bal)["promises"].append((m.get("from"), ab, m.get("accepted_value")))
            elif et == "PaxosAccepted" and tgt == bal[1]:
                self.b(bal)["accepted_from"].append(m.get("from"))
        for e in out:
            sm = meta(e)
            src = sm.get("source")
            t = e.event_type
            if t == "PaxosPrepare":
                bal = ballot_of(sm)
                d = self.b(bal)
                if not d["prepared"]:
                    d["prepared"] = True
                    self.started.append(bal)
            elif t in ("PaxosPromise", "PaxosAccepted"):
                bal = ballot_of(sm)
                if t == "PaxosPromise":
                    mine = self.maxacc.get(src)
                    rep = None
                    if sm.get("accepted_ballot_number") is not None:
                        rep = (as_int(sm.get("accepted_ballot_number"), -1), str(sm.get("accepted_ballot_node")))
                    if mine is not None and (rep is None or rep < mine[0]):
                        self.v("a3-promise-hides-accepted-value",
                               f"{src} promised ballot {bal} reporting accepted {rep} after it had sent Accepted for {mine[0]} ({short(mine[1])})")
                elif delivered and et == "PaxosAccept":
                    cur = self.maxacc.get(src)
                    if cur is None or bal >= cur[0]:
                        self.maxacc[src] = (bal, m.get("value"))
                hi = self.maxprom.get(src)
                if hi is not None and bal < hi:
                    self.v("a1-answered-lower-ballot", f"{src} sent {t} for ballot {bal} after answering ballot {hi}")
                if hi is None or bal > hi:
                    self.maxprom[src] = bal
                if t == "PaxosAccepted" and delivered and et == "PaxosAccept":
                    self.selfacc[src].append((bal, m.get("value")))
            elif t == "PaxosAccept":
                bal = ballot_of(sm)
                d = self.b(bal)
                val = sm.get("value")
                if bal[1] != src:
                    self.v("p0-accept-sent-by-non-owner", f"{src} sent Accept for ballot {bal}")
                if d["p2_snapshot"] is None:
                    d["p2_snapshot"] = list(d["promises"])
                    self.phase2_started(src, bal, val, d)
                if d["accept_values"] and val != d["accept_values"][0] and val not in d["accept_values"]:
                    self.v("p1-two-values-in-one-ballot",
                           f"ballot {bal}: Accept({short(d['accept_values'][0])}) and Accept({short(val)})")
                if val not in d["accept_values"]:
                    d["accept_values"].append(val)
                    if src in self.selfacc:
                        self.selfacc[src].append((bal, val))
        self.state(ev, m, et, tgt, delivered)

    def phase2_started(self, src, bal, val, d):
        promisers = {p[0] for p in d["p2_snapshot"]}
        promisers.discard(src)
        if len(promisers) + 1 < self.q:
            self.v("p3-phase2-without-quorum-of-promises",
                   f"ballot {bal}: phase 2 after promises from {sorted(map(str, promisers))} + self, quorum {self.q}")
        peers = [(ab, av) for (_, ab, av) in d["p2_snapshot"] if ab is not None]
        allowed = []
        for own in [None] + list(self.selfacc.get(src, [])):
            cands = peers + ([own] if own else [])
            if cands:
                top = max(c[0] for c in cands)
                allowed += [c[1] for c in cands if c[0] == top]
            else:
                allowed.append(("<own>",))
        ok = False
        for a in allowed:
            if a == ("<own>",):
                if val in self.proposed:
                    ok = True
            elif a == val:
                ok = True
        if not ok:
            reported = [(ab, short(av)) for ab, av in peers]
            if not peers:
                self.v("p2-value-neither-reported-nor-proposed",
                       f"ballot {bal}: Accept({short(val)}); no promise reported an accepted value; proposed so far {self.proposed}")
            else:
                self.v("p2-ignores-highest-accepted",
                       f"ballot {bal}: Accept({short(val)}) but promises reported {reported}")

    def state(self, ev, m, et, tgt, delivered):
        for x in self.nodes:
            if not x.is_decided:
                if x.name in self.seen:
                    self.v("stability-decision-retracted", f"{x.name} no longer reports a decision")
                continue
            val = x.decided_value
            if x.name not in self.seen:
                self.seen[x.name] = val
                if val not in self.proposed:
                    self.v("validity-decided-value-not-proposed",
                           f"{x.name} decided {short(val)}; proposed {self.proposed}")
                if self.first is None:
                    self.first = (x.name, val)
                if delivered and tgt == x.name and et == "PaxosAccepted":
                    self.decided_by[x.name] = "own"
                    bal = ballot_of(m)
                    d = self.b(bal)
                    acc = set(d["accepted_from"])
                    acc.discard(x.name)
                    if len(acc) + 1 < self.q:
                        self.v("d1-decided-without-quorum-of-acceptors",
                               f"{x.name} decided ballot {bal} after Accepted from {sorted(map(str, acc))} + self "
                               f"({len(d['accepted_from'])} Accepted messages), quorum {self.q}")
                    if val not in d["accept_values"]:
                        self.v("d2-decided-value-not-the-ballots-value",
                               f"{x.name} decided {short(val)} for ballot {bal} whose Accepts carried "
                               f"{[short(a) for a in d['accept_values']]}")
                elif delivered and tgt == x.name and et == "PaxosDecided":
                    self.decided_by[x.name] = "learned"
                    if m.get("value") != val:
                        self.v("learned-value-differs-from-message", f"{x.name}: {short(val)} vs {short(m.get('value'))}")
                else:
                    self.v("d1-decided-without-any-accepted-message",
                           f"{x.name} reports {short(val)} decided after a {et} event (neither an Accepted nor a Decided message)")
            elif self.seen[x.name] != val:
                self.v("stability-decision-changed", f"{x.name}: {short(self.seen[x.name])} -> {short(val)}")
                self.seen[x.name] = val
            if self.first is not None and val != self.first[1]:
                both = val in self.proposed and self.first[1] in self.proposed
                self.v("agreement-two-values-decided" if both else "agreement-with-unproposed-value",
                       f"{self.first[0]} decided {short(self.first[1])}, {x.name} decided {short(val)}")

    def finish(self):
        for node, val, f in self.futures:
            if f.is_resolved:
                want = self.seen.get(node, self.first[1] if self.first else None)
                if node not in self.seen and self.first is None:
                    self.v("future-resolved-without-decision", f"{node}: propose({short(val)}) resolved with {short(f.value)}")
                elif f.value != want:
                    self.v("future-value-differs-from-decision",
                           f"{node}: propose({short(val)}) resolved with {short(f.value)}, decided {short(want)}")


def paxos_strategy(tier):
    t = st.one_of(st.integers(0, 3), st.integers(0, 60), st.integers(0, 500))
    general = st.fixed_dictionaries({
        "n": st.sampled_from([3, 3, 4, 5]),
        "net": net_strategy(tier, horizon=700),
        "retry": st.sampled_from([8, 24, 64, 160]),
        "jitter": st.lists(st.integers(0, 15), max_size=6),
        "props": st.lists(st.tuples(t, st.integers(0, 4)).map(list), min_size=1, max_size=4),
        "vals": st.lists(VALSEL, max_size=4),
    })

    # shape "cut-off proposer comes back": node x proposes while partitioned away, somebody else proposes after the
    # heal, x proposes again later (the documented propose() + start_phase1() pair on a node that may have learned the
    # decision meanwhile). Everything else stays generated.
    @st.composite
    def comeback(draw):
        c = draw(general)
        x, y = draw(st.integers(0, 4)), draw(st.integers(0, 4))
        d = draw(st.integers(5, 120))
        c["n"] = draw(st.sampled_from([4, 5, 5]))
        c["net"]["parts"] = [[0, d, 1 << (x % c["n"])]] + c["net"]["parts"][:1]
        c["props"] = [[draw(st.integers(0, d - 1)), x], [d + draw(st.integers(1, 40)), y],
                      [d + draw(st.integers(20, 400)), x]] + c["props"][:1]
        return c

    return st.one_of(general, general, general, general, comeback())


def run_paxos(case, obl):
    import happysimulator.components.consensus.paxos as paxos_mod
    r = Result()
    case = case if isinstance(case, dict) else {}
    n = clampi(case.get("n"), 3, 5)
    retry = clampi(case.get("retry"), 1, 2000) / 512
    cl = Cluster(case.get("net"), n, lambda i, name, net: paxos_mod.PaxosNode(name, net, retry_delay=retry), END_TICKS)
    for x in cl.nodes:
        x.set_peers(cl.nodes)
    j = PaxosJudge(r, obl, cl.nodes, n // 2 + 1)
    props = as_list(case.get("props"))[:6]
    vals, used_vals = as_list(case.get("vals")), []
    proposers = set()
    for k, row in enumerate(props):
        node = cl.nodes[as_int(field(row, 1)) % n]
        proposers.add(node.name)

        def go(ev, node=node, val=pick_value(field(vals, k), k, "v", used_vals)):
            j.proposed.append(val)
            f = node.propose(val)
            j.futures.append((node.name, val, f))
            return node.start_phase1()

        cl.at(clampi(field(row, 0), 0, END_TICKS - 1), "client", go)
    shim = RandomShim(clampi(as_int((case.get("net") or {}).get("seed") if isinstance(case.get("net"), dict) else 0), 0, 2**31) + 7,
                      [clampi(x, 0, 15) / 16 for x in as_list(case.get("jitter"))])
    status = cl.run(j.step, shim, (paxos_mod,))
    j.finish()
    nb = len(j.started)
    r.nontrivial = nb >= 2 and j.late >= 1
    r.labels += [f"ballots={min(nb, 4)}{'+' if nb > 4 else ''}", "decided" if j.seen else "undecided",
                 f"proposers={len(proposers)}", "late-old-ballot-msg" if j.late else "no-late-msg"]
    if any(not isinstance(v, str) or v == "" for v in used_vals):
        r.labels.append("falsy-proposal")
    if cl.loss or cl.parts_applied:
        r.labels.append("faulty-net")
    if status != "done":
        r.labels.append("inconclusive-" + status)
    r.target = float(min(j.late, 12) + 2 * min(nb, 6))
    r.observed = {"decided": {k: short(v) for k, v in j.seen.items()}, "ballots": nb, "events": cl.events}
    return r


# =============================================================================== Multi-Paxos / Flexible Paxos
class RecSM:
    """Recording state machine (StateMachine protocol): the applied command is also the result."""

    def __init__(self):
        self.applied = []

    def apply(self, command):
        self.applied.append(command)
        return command

    def snapshot(self):
        return list(self.applied)

    def restore(self, snap):
        self.applied = list(snap)


class LogJudge:
    """Per-slot clauses for MultiPaxosNode / FlexiblePaxosNode histories.

    ``pre`` is the message-type prefix ("MultiPaxos" | "FlexPaxos"); q1/q2 are the phase-1/phase-2 quorums."""

    MECHANISM = ("a1", "a2", "p0", "p1", "p2", "p3", "d1", "d2", "future")
    state_only = False      # True: only agreement / validity / stability / applied-order clauses are reported

    def __init__(self, r, obl, variant, pre, nodes, sms, q1, q2):
        self.r, self.obl, self.variant, self.pre, self.nodes, self.sms, self.q1, self.q2 = r, obl, variant, pre, nodes, sms, q1, q2
        self.names = {x.name: x for x in nodes}
        self.submitted = []                 # commands handed to the cluster so far
        self.futures = []                   # (node, command, future)
        self.sig = set()
        self.maxprom = {}                   # acceptor -> highest ballot answered / started
        self.ballots = {}                   # ballot -> {"promises": [(from, entries)], "started_p2": bool}
        self.started = []                   # ballots in order of first Prepare
        self.accepts = {}                   # (ballot, slot) -> [commands carried] (Accepts sent by the ballot's owner)
        self.senders = {}                   # (slot, command) -> nodes that sent an Accept for it under any ballot
        self.own = {x.name: {} for x in nodes}      # node -> slot -> [(ballot number, command)] it may hold as acceptor
        self.acks = {x.name: {} for x in nodes}     # leader -> slot -> [(from, ballot, command)] Accepted delivered
        self.info = {}                      # id(metadata of an Accepted) -> (metadata, ballot, slot, command)
        self.first = {}                     # slot -> (node, command) first report
        self.rep = {x.name: {} for x in nodes}      # node -> slot -> command reported
        self.ci = {x.name: 0 for x in nodes}
        self.last = {x.name: 0 for x in nodes}      # log length after the previous event
        self.late = 0
        self.takeover_with_uncommitted = 0
        self.leaders_seen = set()
        self.commits = 0

    def v(self, clause, detail):
        if self.state_only and clause.split("-")[0] in self.MECHANISM:
            return
        s = f"{P}/{self.obl}/{clause}"
        if s not in self.sig:
            self.sig.add(s)
            self.r.add(s, detail)

    def bal(self, b):
        d = self.ballots.get(b)
        if d is None:
            d = self.ballots[b] = {"promises": [], "p2": False, "prepared": False}
        return d

    def answered(self, src, b, what):
        hi = self.maxprom.get(src)
        if hi is not None and b < hi:
            self.v("a1-answered-lower-ballot", f"{src} sent {what} for ballot {b} after promising ballot {hi}")
        if hi is None or b > hi:
            self.maxprom[src] = b

    def step(self, ev, out):
        pre = self.pre
        m = meta(ev)
        et = ev.event_type
        tgt = getattr(ev.target, "name", None)
        delivered = tgt in self.names and "source" in m
        if delivered and "ballot_number" in m and et != pre + "Nack":
            b = ballot_of(m) if "ballot_node" in m else None
            if b is not None and any(b2 > b for b2 in self.started):
                self.late += 1
            if et == pre + "Promise" and b is not None and tgt == b[1]:
                self.bal(b)["promises"].append((m.get("from"), as_list(m.get("log_entries"))))
            elif et == pre + "Accepted":
                inf = self.info.get(id(m))
                if inf is not None and inf[0] is m:
                    self.acks[tgt].setdefault(inf[2], []).append((m.get("from"), inf[1], inf[3]))
        for e in out:
            sm = meta(e)
            src = sm.get("source")
            t = e.event_type
            if t == pre + "Prepare":
                b = ballot_of(sm)
                d = self.bal(b)
                if not d["prepared"]:
                    d["prepared"] = True
                    self.started.append(b)
                    if len(self.started) >= 2 and any(x.log.last_index > x.log.commit_index for x in self.nodes):
                        self.takeover_with_uncommitted += 1
                    if b[1] == src:
                        hi = self.maxprom.get(src)
                        if hi is None or b > hi:
                            self.maxprom[src] = b
            elif t == pre + "Promise":
                self.answered(src, ballot_of(sm), "Promise")
            elif t == pre + "Accepted":
                if delivered and et == pre + "Accept":
                    b = ballot_of(m)
                    slot, cmd = as_int(m.get("slot"), -1), m.get("command")
                    self.answered(src, b, "Accepted")
                    held = self.names[src].log.get(slot)
                    if held is None or held.command != cmd:
                        before = self.last[src]
                        self.v("a2-accepted-but-slot-holds-other-entry" + ("-gap" if slot > before + 1 else "-kept-old"),
                               f"{src} answered Accepted(slot {slot}, {short(cmd)}, ballot {b}) but its slot {slot} holds "
                               f"{short(held.command) if held else None} (log length before: {before})")
                    self.info[id(sm)] = (sm, b, slot, cmd)
                    self.own[src].setdefault(slot, []).append((b[0], cmd))
            elif t == pre + "Accept":
                b = ballot_of(sm)
                slot, cmd = as_int(sm.get("slot"), -1), sm.get("command")
                self.senders.setdefault((slot, cmd), set()).add(src)
                if b[1] != src:
                    was = any(k[0][1] == src for k in self.accepts)
                    self.v("p0-deposed-leader-replicates-under-foreign-ballot" if was else "p0-became-leader-under-foreign-ballot",
                           f"{src} sent Accept(slot {slot}, {short(cmd)}) under ballot {b}")
                    continue
                d = self.bal(b)
                if not d["p2"]:
                    d["p2"] = True
                    promisers = {p[0] for p in d["promises"]}
                    promisers.discard(src)
                    if len(promisers) + 1 < self.q1:
                        self.v("p3-leader-without-quorum-of-promises",
                               f"{src} sent Accept under ballot {b} after promises from {sorted(map(str, promisers))} + self, Q1={self.q1}")
                vals = self.accepts.setdefault((b, slot), [])
                if not vals:
                    self.check_p2(src, b, slot, cmd, d)
                elif cmd not in vals:
                    self.v("p1-two-commands-in-one-ballot-and-slot",
                           f"ballot {b} slot {slot}: Accept({short(vals[0])}) and Accept({short(cmd)})")
                if cmd not in vals:
                    vals.append(cmd)
                    self.own[src].setdefault(slot, []).append((b[0], cmd))
        self.state(ev, m, et, tgt, delivered)

    def check_p2(self, src, b, slot, cmd, d):
        peers = []
        for frm, entries in d["promises"]:
            for en in entries:
                if isinstance(en, dict) and as_int(en.get("index"), -1) == slot:
                    peers.append((as_int(en.get("term"), -1), en.get("command")))
        if not peers:
            return
        top = max(t for t, _ in peers)
        allowed = [c for t, c in peers if t == top] + [c for t, c in self.own[src].get(slot, []) if t >= top]
        if cmd not in allowed:
            self.v("p2-leader-ignores-accepted-entry-in-promises",
                   f"{src} ballot {b} slot {slot}: Accept({short(cmd)}) but promises reported {[(t, short(c)) for t, c in peers]}")

    def state(self, ev, m, et, tgt, delivered):
        pre = self.pre
        for x in self.nodes:
            if x.is_leader:
                self.leaders_seen.add(x.name)
            log = x.log
            ci = log.commit_index
            rep = self.rep[x.name]
            old_ci = self.ci[x.name]
            if ci < old_ci:
                self.v("stability-commit-index-decreased", f"{x.name}: commit_index {old_ci} -> {ci}")
            if ci > log.last_index:
                self.v("commit-beyond-log", f"{x.name}: commit_index {ci} > last_index {log.last_index}")
            new_slots = []
            for i in range(1, min(ci, log.last_index) + 1):
                en = log.get(i)
                cmd = en.command if en is not None else None
                if i in rep:
                    if rep[i] != cmd:
                        self.v("stability-slot-decision-changed", f"{x.name} slot {i}: {short(rep[i])} -> {short(cmd)}")
                        rep[i] = cmd
                else:
                    rep[i] = cmd
                    new_slots.append(i)
                    self.commits += 1
                    if cmd not in self.submitted:
                        self.v("validity-command-not-submitted", f"{x.name} slot {i}: {short(cmd)}")
                f = self.first.get(i)
                if f is None:
                    self.first[i] = (x.name, cmd)
                elif f[1] != cmd:
                    self.v("agreement-slot-two-commands", f"slot {i}: {f[0]} reported {short(f[1])}, {x.name} reports {short(cmd)}")
            self.ci[x.name] = ci
            self.last[x.name] = log.last_index
            if new_slots and delivered and tgt == x.name and et == pre + "Accepted":
                self.check_d(x, new_slots, as_int(m.get("slot"), -1))
            applied = self.sms[x.name].applied
            for j, c in enumerate(applied):
                if rep.get(j + 1, c) != c:
                    self.v("applied-differs-from-committed-slot", f"{x.name} applied[{j}]={short(c)}, slot {j + 1}={short(rep.get(j + 1))}")
                    break
            if len(applied) > len(rep):
                self.v("applied-beyond-commit", f"{x.name}: applied {len(applied)} commands, reported {len(rep)} slots")

    def check_d(self, x, new_slots, trig):
        """x advanced its commit index while handling an Accepted for slot ``trig``."""
        for i in new_slots:
            cmd = self.rep[x.name][i]
            acks = self.acks[x.name].get(i, [])
            sent = [b for (b, s), vals in self.accepts.items() if s == i and b[1] == x.name and cmd in vals]
            best = 0
            for b in sent:
                best = max(best, len({a[0] for a in acks if a[1] == b and a[2] == cmd and a[0] != x.name}))
            if sent and best + 1 >= self.q2:
                continue
            if i != trig:
                self.v("d1-earlier-slot-committed-without-its-own-quorum",
                       f"{x.name} committed slot {i}={short(cmd)} with matching Accepted from "
                       f"{sorted({str(a[0]) for a in acks if a[2] == cmd})} + self (Q2={self.q2}) when slot {trig} reached its quorum")
            elif x.name not in self.senders.get((i, cmd), ()):
                self.v("d2-committed-command-never-sent-in-accept", f"{x.name} slot {i}: {short(cmd)}")
            elif not sent:
                pass        # replicated under a foreign ballot only: reported as p0
            elif len(acks) + 1 < self.q2:
                self.v("d1-committed-below-quorum",
                       f"{x.name} committed slot {i} after {len(acks)} Accepted from {sorted({str(a[0]) for a in acks})} + self, Q2={self.q2}")
            elif len({a[0] for a in acks if a[0] != x.name}) + 1 < self.q2:
                self.v("d1-same-acceptor-counted-twice",
                       f"{x.name} committed slot {i} after {len(acks)} Accepted from {sorted({str(a[0]) for a in acks})} + self, Q2={self.q2}")
            else:
                self.v("d1-accepted-of-other-ballot-or-command-counted",
                       f"{x.name} committed slot {i}={short(cmd)} with Accepted {[(a[0], a[1], short(a[2])) for a in acks]}, Q2={self.q2}")

    def finish(self):
        for node, cmd, f in self.futures:
            if f.is_resolved:
                val = f.value
                idx = val[0] if isinstance(val, tuple) and len(val) == 2 else None
                dec = self.first.get(idx)
                if dec is None or dec[1] != cmd or val[1] != cmd:
                    self.v("future-resolved-by-foreign-command",
                           f"{node}: submit({short(cmd)}) resolved with {short(val)}; slot {idx} decided {short(dec[1]) if dec else None}")


FLEX_QUORUMS = {n: [(a, b) for a in range(1, n + 1) for b in range(1, n + 1) if a + b > n] for n in (3, 4, 5)}


def log_strategy(variant, safe=False):
    def s(tier):
        t = st.one_of(st.integers(0, 3), st.integers(0, 80), st.integers(0, 700))
        starts = st.lists(st.tuples(t, st.integers(0, 4)).map(list), min_size=1, max_size=1 if safe else 4)
        d = {
            "n": st.sampled_from([3, 3, 4, 5]),
            "net": net_strategy(tier, horizon=900),
            "hb": st.sampled_from([32, 128, 512]),
            "q": st.integers(0, 14),
            "starts": starts,
            "cmds": st.lists(st.tuples(t, st.integers(0, 7), st.integers(0, 2)).map(list), max_size=8),
            "cvals": st.lists(VALSEL, max_size=8),
        }
        return st.fixed_dictionaries(d)
    return s


def run_log(case, obl, variant, safe=False, end_ticks=END_TICKS, state_only=False, post=None):
    r = Result()
    case = case if isinstance(case, dict) else {}
    n = clampi(case.get("n"), 3, 5)
    hb = clampi(case.get("hb"), 1, 4096) / 512
    sms = [RecSM() for _ in range(n)]
    if variant == "multi":
        import happysimulator.components.consensus.multi_paxos as mod
        q1 = q2 = n // 2 + 1
        pre = "MultiPaxos"
        mk = lambda i, name, net: mod.MultiPaxosNode(name, net, state_machine=sms[i], heartbeat_interval=hb)
    else:
        import happysimulator.components.consensus.flexible_paxos as mod
        qs = FLEX_QUORUMS[n]
        q1, q2 = qs[as_int(case.get("q")) % len(qs)]
        pre = "FlexPaxos"
        mk = lambda i, name, net: mod.FlexiblePaxosNode(name, net, state_machine=sms[i], phase1_quorum=q1, phase2_quorum=q2,
                                                        heartbeat_interval=hb)
    cl = Cluster(case.get("net"), n, mk, end_ticks)
    for x in cl.nodes:
        x.set_peers(cl.nodes)
    j = LogJudge(r, obl, variant, pre, cl.nodes, {x.name: sms[i] for i, x in enumerate(cl.nodes)}, q1, q2)
    j.state_only = state_only
    starts = as_list(case.get("starts"))[:1 if safe else 6]
    for row in starts:
        node = cl.nodes[as_int(field(row, 1)) % n]
        cl.at(clampi(field(row, 0), 0, end_ticks - 1), "start", lambda ev, node=node: node.start(), daemon=True)
    modes = set()
    used_cmds = []
    cmd_values = [pick_value(field(as_list(case.get("cvals")), k), k, "c", used_cmds) for k in range(12)]
    for k, row in enumerate(as_list(case.get("cmds"))[:12]):
        def go(ev, k=k, row=row):
            sel, mode = as_int(field(row, 1)), as_int(field(row, 2)) % 3
            node = cl.nodes[sel % n]
            if sel % 8 >= 5:
                leaders = [x for x in cl.nodes if x.is_leader]
                if leaders:
                    node = leaders[sel % len(leaders)]
            cmd = cmd_values[k]
            j.submitted.append(cmd)
            if safe and mode == 0 and node.is_leader:
                mode = 1
            if mode == 2 and variant == "multi":
                modes.add("forward")
                return [cl.Event(time=ev.time, event_type="MultiPaxosForward", target=node, daemon=True,
                                 context={"metadata": {"command": cmd}})]
            was_leader = node.is_leader
            j.futures.append((node.name, cmd, node.submit(cmd)))
            if mode >= 1 and was_leader:
                modes.add("submit+replicate")
                return node._replicate_slot(node.log.last_index)
            modes.add("submit-to-leader" if was_leader else "submit-pending")
            return None
        cl.at(clampi(field(row, 0), 0, end_ticks - 1), "client", go)
    status = cl.run(j.step, RandomShim(1), ())
    j.finish()
    if post is not None:
        post(r, j, cl, sms, cmd_values, status)
    nb = len(j.started)
    r.nontrivial = nb >= 2 and j.takeover_with_uncommitted >= 1 and j.commits >= 1
    r.labels += [f"{variant}", f"ballots={min(nb, 4)}", f"leaders={min(len(j.leaders_seen), 3)}",
                 "commits" if j.commits else "no-commit", "takeover-with-uncommitted" if j.takeover_with_uncommitted else "no-takeover"]
    r.labels += sorted(modes)
    if variant == "flexible":
        r.labels.append(f"Q1={q1},Q2={q2},N={n}")
    if status != "done":
        r.labels.append("inconclusive-" + status)
    r.target = float(min(j.takeover_with_uncommitted, 4) * 3 + min(j.commits, 10) + min(j.late, 10))
    r.observed = {"slots": {str(k): short(v[1]) for k, v in sorted(j.first.items())}, "ballots": nb, "events": cl.events}
    return r


RULE_LOG = ("3-5 {v} nodes (Flexible: every (Q1,Q2) with Q1+Q2>N), 1-4 start() calls on arbitrary nodes at generated instants (competing "
            "leaders), 0-8 distinct commands given to arbitrary nodes or to a current leader via submit() / submit()+replication call of "
            "the shipped example / MultiPaxosForward event, same scripted network as the paxos obligation; non-trivial = at least two "
            "ballots, one of them started while some node held uncommitted slots, and at least one slot committed")


# ---- restricted domain for the per-slot protocols -----------------------------------------------------
def log_safe_strategy(variant):
    """One leadership attempt, reliable FIFO network (one constant delay), commands only after every promise has
    arrived and only through paths that replicate (forward event / submit+replication call): none of the open
    Multi/Flexible-Paxos findings can occur here by construction."""
    def s(tier):
        return st.fixed_dictionaries({
            "n": st.sampled_from([3, 4, 5]),
            "d": st.integers(0, 24),
            "hb": st.sampled_from([32, 128, 512]),
            "q": st.integers(0, 14),
            "start": st.tuples(st.integers(0, 50), st.integers(0, 4)).map(list),
            "cmds": st.lists(st.tuples(st.integers(0, 300), st.integers(0, 9), st.integers(1, 2)).map(list), max_size=8),
            "cvals": st.lists(VALSEL, max_size=8),
        })
    return s


def run_log_safe(case, obl, variant):
    case = case if isinstance(case, dict) else {}
    d = clampi(case.get("d"), 0, 64)
    start = case.get("start")
    t0, leader = clampi(field(start, 0), 0, 200), as_int(field(start, 1))
    n = clampi(case.get("n"), 3, 5)
    cmds = []
    for row in as_list(case.get("cmds"))[:12]:
        sel = as_int(field(row, 1))
        node = leader % n if sel % 10 < 8 else sel % n
        cmds.append([t0 + 2 * d + 1 + clampi(field(row, 0), 0, 1000), node, 1 + as_int(field(row, 2)) % 2])
    full = {"n": n, "hb": case.get("hb"), "q": case.get("q"), "starts": [[t0, leader]], "cmds": cmds, "cvals": case.get("cvals"),
            "net": {"delays": [d], "seed": 0, "loss": 0, "drops": [], "parts": []}}
    r = run_log(full, obl, variant, safe=True)
    r.nontrivial = "commits" in r.labels and len(cmds) >= 2
    return r


# ---- leader hand-over on a fault-free FIFO network ----------------------------------------------------
def handover_strategy(tier):
    return st.fixed_dictionaries({
        "n": st.sampled_from([3, 4, 5]),
        "d": st.integers(1, 40),
        "hb": st.sampled_from([16, 64, 256]),
        "q": st.integers(0, 14),
        "lead": st.tuples(st.integers(0, 4), st.integers(0, 3)).map(list),
        "t1": st.integers(0, 20),
        "gap": st.one_of(st.integers(0, 8), st.integers(0, 200)),
        "k1": st.integers(1, 3),
        "k2": st.integers(1, 3),
        "xs": st.lists(st.tuples(st.integers(-8, 24), st.integers(0, 3)).map(list), max_size=3),
        "cvals": st.lists(VALSEL, max_size=9),
    })


def run_handover(case, obl, variant):
    """One established leader L1 (k1 commands handed to it before start()), later one challenger L2 (k2 commands handed to it
    before its start()), a client that keeps calling submit() on L1 at instants around the hand-over. Reliable network, one
    constant delay d (FIFO). State clauses and 'the elected leaders' commands are applied everywhere' with no exclusion."""
    case = case if isinstance(case, dict) else {}
    n = clampi(case.get("n"), 3, 5)
    d = clampi(case.get("d"), 1, 64)
    hbt = clampi(case.get("hb"), 1, 1024)
    lead = case.get("lead")
    a = as_int(field(lead, 0)) % n
    b = (a + 1 + as_int(field(lead, 1)) % (n - 1)) % n
    t1 = clampi(case.get("t1"), 0, 50)
    # L2 starts only after L1's commit has been announced to it (commit at t1+4d, next heartbeat within hb, delivery d):
    # an earlier challenger re-replicates the committed-but-unannounced slots under its ballot, the old leader truncates
    # below its commit index and retracts the decision for an instant (open finding stability-commit-index-decreased)
    t2 = t1 + 5 * d + hbt + 2 + clampi(case.get("gap"), 0, 400)
    k1, k2 = clampi(case.get("k1"), 1, 3), clampi(case.get("k2"), 1, 3)
    cmds = [[t1, a, 0]] * k1 + [[t2, b, 0]] * k2
    inside = 0
    for row in as_list(case.get("xs"))[:3]:
        off = (clampi(field(row, 0), -8, 24) * d) // 4 + clampi(field(row, 1), 0, 3)
        tx = max(0, t2 + off)
        if t2 + d <= tx <= t2 + 3 * d:
            inside += 1
        cmds.append([tx, a, 0])
    end = t2 + 10 * d + 3 * hbt + 16
    full = {"n": n, "hb": hbt, "q": case.get("q"), "starts": [[t1, a], [t2, b]], "cmds": cmds, "cvals": case.get("cvals"),
            "net": {"delays": [d], "seed": 0, "loss": 0, "drops": [], "parts": []}}

    def post(r, j, cl, sms, cmd_values, status):
        if status != "done":
            return
        must = cmd_values[:k1 + k2]
        for i, x in enumerate(cl.nodes):
            missing = [short(c) for c in must if not any(c == y and type(c) is type(y) for y in sms[i].applied)]
            if missing:
                r.add(f"{P}/{obl}/elected-leaders-command-not-applied-everywhere",
                      f"{x.name} applied {[short(c) for c in sms[i].applied]}; missing {missing} (handed to {cl.nodes[a].name}/"
                      f"{cl.nodes[b].name} before their start(); d={d}, hb={hbt}, hand-over at {t2}, horizon {end} ticks)")
                break

    r = run_log(full, obl, variant, end_ticks=end, state_only=True, post=post)
    r.nontrivial = inside >= 1 or (2 * d * 2 >= hbt)
    r.labels += ["submit-inside-handover-window" if inside else "no-submit-inside-window", f"d={'<8' if d < 8 else '>=8'}", f"hb={hbt}"]
    r.target = float(inside)
    return r


# =============================================================================== bounded liveness
def liveness_strategy(safe):
    def s(tier):
        return st.fixed_dictionaries({
            "variant": st.sampled_from([0, 1, 2] if safe else [0, 1, 2, 1, 2]),
            "n": st.sampled_from([3, 4, 5]),
            "net": quiet_net_strategy(tier, maxd=8),
            "node": st.integers(0, 4),
            "q": st.integers(0, 14),
            "hb": st.sampled_from([16, 64, 256]),
            "k": st.integers(1, 3),
            "gap": st.integers(0, 40),
            "vals": st.lists(VALSEL, max_size=3),
            "mode": st.sampled_from([1, 2]) if safe else st.sampled_from([0, 0, 1, 2]),
        })
    return s


def run_liveness(case, obl):
    r = Result()
    case = case if isinstance(case, dict) else {}
    variant = ["paxos", "multi", "flexible"][as_int(case.get("variant")) % 3]
    n = clampi(case.get("n"), 3, 5)
    netcase = case.get("net") if isinstance(case.get("net"), dict) else {}
    netcase = dict(netcase, loss=0, drops=[], parts=[],
                   delays=[clampi(x, 0, 8) for x in as_list(netcase.get("delays"))] or [1])
    if obl.endswith("-safe") and variant != "paxos":
        netcase["delays"] = netcase["delays"][:1]      # FIFO: the slot-placement finding needs reordering
    dmax = max(netcase["delays"])
    who = as_int(case.get("node")) % n

    def v(clause, detail):
        r.add(f"{P}/{obl}/{clause}", detail)

    if variant == "paxos":
        import happysimulator.components.consensus.paxos as mod
        horizon = 12 * dmax + 8
        cl = Cluster(netcase, n, lambda i, name, net: mod.PaxosNode(name, net), horizon)
        for x in cl.nodes:
            x.set_peers(cl.nodes)
        fut = []
        val0 = pick_value(field(as_list(case.get("vals")), 0), 0, "v", [])

        def go(ev):
            fut.append(cl.nodes[who].propose(val0))
            return cl.nodes[who].start_phase1()

        cl.at(0, "client", go)
        status = cl.run(lambda ev, out: None, RandomShim(3), (mod,))
        bad = [x.name for x in cl.nodes if not x.is_decided or x.decided_value != val0 or type(x.decided_value) is not type(val0)]
        if status == "done" and bad:
            v("paxos-single-proposer-not-decided-everywhere",
              f"after {horizon} ticks (max delay {dmax}) {bad} do not report {val0!r}")
        if status == "done" and not (fut and fut[0].is_resolved and fut[0].value == val0):
            v("paxos-future-not-resolved", f"future resolved={bool(fut and fut[0].is_resolved)}")
        r.labels += ["paxos", f"dmax={dmax}"]
        r.nontrivial = dmax >= 1
        if status != "done":
            r.labels.append("inconclusive-" + status)
        return r

    hb = clampi(case.get("hb"), 1, 1024)
    k = clampi(case.get("k"), 1, 4)
    gap = clampi(case.get("gap"), 0, 200)
    mode = as_int(case.get("mode")) % 3
    if variant == "flexible" and mode == 2:
        mode = 1
    sms = [RecSM() for _ in range(n)]
    if variant == "multi":
        import happysimulator.components.consensus.multi_paxos as mod
        pre = "MultiPaxos"
        mk = lambda i, name, net: mod.MultiPaxosNode(name, net, state_machine=sms[i], heartbeat_interval=hb / 512)
    else:
        import happysimulator.components.consensus.flexible_paxos as mod
        qs = FLEX_QUORUMS[n]
        q1, q2 = qs[as_int(case.get("q")) % len(qs)]
        pre = "FlexPaxos"
        mk = lambda i, name, net: mod.FlexiblePaxosNode(name, net, state_machine=sms[i], phase1_quorum=q1, phase2_quorum=q2,
                                                        heartbeat_interval=hb / 512)
    t_first = 2 * dmax + 1                      # every promise has arrived: the leader is established
    t_last = t_first + (k - 1) * gap
    horizon = t_last + 6 * dmax + 2 * hb + 8    # accept + accepted + next heartbeat (+ one spare period) + its delivery
    cl = Cluster(netcase, n, mk, horizon)
    for x in cl.nodes:
        x.set_peers(cl.nodes)
    L = cl.nodes[who]
    cl.at(0, "start", lambda ev: L.start(), daemon=True)
    cmds, facts, futs = [], {"leader_at_submit": [], "sent": [], "other_ballots": 0}, []
    used_live = []
    live_cmds = [pick_value(field(as_list(case.get("vals")), i), i, "c", used_live) for i in range(4)]
    for i in range(k):
        def go(ev, i=i):
            cmd = live_cmds[i]
            cmds.append(cmd)
            if mode == 2:                      # judged when the forward event is handled (see step)
                return [cl.Event(time=ev.time, event_type="MultiPaxosForward", target=L, daemon=True,
                                 context={"metadata": {"command": cmd}})]
            was = L.is_leader
            facts["leader_at_submit"].append(was)
            futs.append((cmd, L.submit(cmd)))
            if mode == 1 and was:
                return L._replicate_slot(L.log.last_index)
            return None
        cl.at(t_first + i * gap, "client", go)

    was_leader = [False]

    def step(ev, out):
        if ev.event_type == "MultiPaxosForward" and ev.target is L:
            facts["leader_at_submit"].append(was_leader[0])       # leadership just before the forward was handled
        was_leader[0] = L.is_leader
        for e in out:
            if e.event_type == pre + "Accept":
                facts["sent"].append(meta(e).get("command"))
            elif e.event_type == pre + "Prepare" and meta(e).get("source") != L.name:
                facts["other_ballots"] += 1

    status = cl.run(step, RandomShim(3), ())
    mname = ["submit", "submit+replicate", "forward"][mode]
    r.labels += [variant, mname, f"dmax={dmax}", f"hb={hb}"]
    r.nontrivial = k >= 2 or dmax >= 2
    if status != "done":
        r.labels.append("inconclusive-" + status)
        return r
    if len(facts["leader_at_submit"]) < len(cmds) or not all(facts["leader_at_submit"]):
        if not any(facts["leader_at_submit"]) and L.leader != L.name:
            v(f"leader-never-established-{variant}", f"{L.name} is not leader {t_first} ticks after start() (max delay {dmax})")
        else:
            v(f"leader-lost-leadership-without-competitor-{variant}",
              f"{L.name}.is_leader at the submissions: {facts['leader_at_submit']} (no other node ever started a ballot; hb={hb} ticks)")
        return r
    missing = [c for c in cmds if c not in facts["sent"]]
    if missing:
        v(f"command-given-to-established-leader-never-replicated-{variant}-{mname}",
          f"{missing} never appeared in an Accept message within {horizon} ticks")
        return r
    lead_committed = [e.command for e in L.log.committed_entries()]
    if lead_committed != cmds:
        v(f"replicated-command-not-committed-at-leader-{variant}", f"leader committed {lead_committed}, submitted {cmds}")
        return r
    lag = [(x, sms[i].applied) for i, x in enumerate(cl.nodes) if sms[i].applied != cmds]
    if lag:
        misplaced = [(x.name, [e.command for e in x.log.entries_after(0)]) for x, _ in lag
                     if [e.command for e in x.log.entries_after(0)][:len(cmds)] != cmds]
        if misplaced:
            v(f"follower-log-differs-from-leaders-{variant}",
              f"leader committed {cmds}; after {horizon} ticks (hb {hb}, max delay {dmax}) follower logs: {misplaced[:3]}")
        else:
            v(f"commit-never-announced-to-followers-{variant}",
              f"leader committed {cmds}; after {horizon} ticks (hb {hb}, max delay {dmax}) applied: {[(x.name, a) for x, a in lag][:3]}")
    for cmd, f in futs:
        if not f.is_resolved:
            v(f"submit-future-not-resolved-{variant}", f"{cmd}")
            break
    return r


# =============================================================================== leader election
STRATS = ["bully", "ring", "randomized"]


def election_strategy(safe):
    def s(tier):
        return st.fixed_dictionaries({
            "n": st.sampled_from([3, 4, 5]),
            "strategy": st.sampled_from([0, 1, 2]),
            "net": net_strategy(tier, maxd=120, horizon=900),
            "timeout": st.sampled_from([48, 96, 200]),
            "hb": st.sampled_from([12, 40]),
            "starts": st.lists(st.one_of(st.integers(0, 3), st.integers(0, 300)), min_size=5, max_size=5),
            "joins": st.just([]) if safe else st.lists(st.integers(1, 900), max_size=2),
            "draws": st.lists(st.integers(0, 15), max_size=12),
        })
    return s


def run_election(case, obl):
    import happysimulator.components.consensus.election_strategies as es
    import happysimulator.components.consensus.leader_election as le
    r = Result()
    case = case if isinstance(case, dict) else {}
    n = clampi(case.get("n"), 3, 5)
    k = as_int(case.get("strategy")) % 3
    sname = STRATS[k]
    timeout = clampi(case.get("timeout"), 4, 2000) / 512
    hb = clampi(case.get("hb"), 2, 2000) / 512
    EL_END = 1024
    joins = sorted(clampi(t, 1, EL_END - 1) for t in as_list(case.get("joins"))[:2])
    joins = joins[:max(0, n - 3)]          # the initial cluster has at least 3 members
    n0 = n - len(joins)
    mkstrat = [es.BullyStrategy, es.RingStrategy, lambda: es.RandomizedStrategy(ballot_range=16)][k]
    cl = Cluster(case.get("net"), n, lambda i, name, net: le.LeaderElection(name, net, strategy=mkstrat(),
                                                                           election_timeout=timeout, heartbeat_interval=hb),
                 EL_END)
    nodes = cl.nodes
    for x in nodes[:n0]:
        for y in nodes[:n0]:
            x.add_member(y)
    starts = as_list(case.get("starts"))
    for i, x in enumerate(nodes[:n0]):
        cl.at(clampi(field(starts, i), 0, EL_END - 1), "start", lambda ev, x=x: x.start(), daemon=True)
    joined = [0]
    for jx, t in enumerate(joins):
        new = nodes[n0 + jx]

        def join(ev, new=new, upto=n0 + jx + 1):
            joined[0] += 1
            for x in nodes[:upto]:
                for y in nodes[:upto]:
                    x.add_member(y)
            return new.start()

        cl.at(t, "join", join, daemon=True)
    seen = {}            # term -> (leader, node that reported it)
    pairs = set()
    sig = set()

    def step(ev, out):
        for x in nodes:
            ld = x.current_leader
            if ld is None:
                continue
            t = x.current_term
            pairs.add((t, ld))
            old = seen.get(t)
            if old is None:
                seen[t] = (ld, x.name)
            elif old[0] != ld:
                s = f"{P}/{obl}/two-leaders-in-one-term-{sname}-{'after-join' if joined[0] else 'static-membership'}"
                if s not in sig:
                    sig.add(s)
                    r.add(s, f"term {t}: {old[1]} reported leader {old[0]}, {x.name} reports leader {ld}")

    shim = RandomShim(5, [clampi(x, 0, 15) / 16 for x in as_list(case.get("draws"))])
    status = cl.run(step, shim, (es,))
    leaders = {ld for _, ld in pairs}
    r.nontrivial = len(pairs) >= 2
    r.labels += [sname, f"leaders={len(leaders)}", f"terms={min(len(seen), 4)}", "join" if joins else "static"]
    if status != "done":
        r.labels.append("inconclusive-" + status)
    r.target = float(min(len(pairs), 8) + 3 * len(leaders))
    r.observed = {"pairs": sorted(pairs)[:8]}
    return r


# =============================================================================== distributed lock
def lock_strategy(tier):
    t = st.one_of(st.integers(0, 6), st.integers(0, 40), st.integers(0, 200))
    op = st.tuples(t, st.integers(0, 3), st.integers(0, 1), st.sampled_from([0, 0, 0, 1, 1, 2, 2, 2, 3, 4, 5]), st.integers(0, 6)).map(list)
    return st.fixed_dictionaries({
        "lease": st.sampled_from([3, 10, 40, 400]),
        "maxw": st.sampled_from([0, 0, 1, 2]),
        "sched": st.lists(st.integers(0, 1), max_size=6),
        "ops": st.lists(op, min_size=1, max_size=30 if tier == "thorough" else 18),
    })


def run_lock(case, obl):
    from happysimulator import Entity, Event, Instant, Simulation
    from happysimulator.components.consensus.distributed_lock import DistributedLock, LockGrant
    from happysimulator.core.sim_future import SimFuture
    from ..harness import SimProbe
    r = Result()
    case = case if isinstance(case, dict) else {}
    lease_t = clampi(case.get("lease"), 1, 4000)
    lease_ns = lease_t * TICK
    lock = DistributedLock("lockmgr", lease_duration=lease_t / 512, max_waiters=clampi(case.get("maxw"), 0, 5))
    sched = [as_int(b) for b in as_list(case.get("sched"))]
    LOCKS = ["A", "B"]
    grants = []                      # client view: (lock, token, holder, seq)
    mine = {}                        # (worker, lock) -> last token received
    released = {}                    # (lock, token) -> ns of the successful release call
    counters = {"grant": 0, "calls": 0, "reentrant": 0, "queued": 0, "expired": 0}
    sig = set()

    def v(clause, detail):
        s = f"{P}/{obl}/{clause}"
        if s not in sig:
            sig.add(s)
            r.add(s, detail)

    def expiry_events():
        ev = getattr(lock, "_pending_expiry", None)
        if ev is None:
            return []
        lock._pending_expiry = None
        counters["grant"] += 1
        want = sched[(counters["grant"] - 1) % len(sched)] if sched else 1
        if want == 0 and (counters["grant"] % 3 == 0) or ev.time.nanoseconds < sim_now():
            return []                # this caller forgets the lease timer (allowed: the lock then simply stays held)
        return [ev]

    def got(worker, lname, g):
        if isinstance(g, LockGrant):
            grants.append((lname, g.fencing_token, g.holder, len(grants)))
            mine[(worker, lname)] = g.fencing_token
            if g.holder != worker or g.lock_name != lname:
                v("grant-for-somebody-else", f"{worker} asked for {lname}, got {g}")

    class Client(Entity):
        def handle_event(self, event):
            kind, lname, arg = event.context["kind"], event.context["lock"], event.context["arg"]
            me = self.name
            counters["calls"] += 1
            if kind == 0:
                if lock.get_holder(lname) == me:
                    counters["reentrant"] += 1
                f = lock.acquire(lname, me)
                if not f.is_resolved:
                    counters["queued"] += 1
                first = expiry_events()
                if first:
                    yield 0.0, first
                g = yield f
                got(me, lname, g)
                return expiry_events()
            if kind == 1:
                got(me, lname, lock.try_acquire(lname, me))
                return expiry_events()
            if kind in (2, 3):
                tok = mine.get((me, lname), 0) if kind == 2 else arg
                if lock.release(lname, tok):
                    released[(lname, tok)] = sim_now()
                return expiry_events()
            if kind == 4:
                reply = SimFuture()
                req = Event(time=self.now, event_type="LockAcquireRequest", target=lock,
                            context={"metadata": {"lock_name": lname, "requester": me}, "reply_future": reply})
                yield 0.0, [req]
                g = yield reply
                got(me, lname, g)
                return expiry_events()
            if kind == 5:
                tok = mine.get((me, lname), 0)
                holder_before = lock.get_holder(lname), lock.get_fencing_token(lname)
                return [Event(time=self.now, event_type="LockReleaseRequest", target=lock,
                              context={"metadata": {"lock_name": lname, "fencing_token": tok}, "vf_release": holder_before})]
            return None

    workers = [Client(f"w{i}") for i in range(4)]
    sim = Simulation(entities=[lock, *workers], end_time=Instant(1200 * TICK))

    def sim_now():
        return sim._clock.now.nanoseconds

    for row in as_list(case.get("ops"))[:40]:
        w = workers[as_int(field(row, 1)) % 4]
        sim.schedule(Event(time=Instant(clampi(field(row, 0), 0, 1000) * TICK), event_type="op", target=w,
                           context={"kind": as_int(field(row, 3)) % 6, "lock": LOCKS[as_int(field(row, 2)) % 2],
                                    "arg": as_int(field(row, 4))}))
    state = {ln: None for ln in LOCKS}       # lock -> (holder, token, since_ns)
    hist = {ln: [] for ln in LOCKS}          # lock -> [(token, holder, since_ns)] successive grants seen in the manager

    def on_event(ev):
        now = ev.time.nanoseconds
        if ev.event_type == "LockReleaseRequest" and ev.target is lock:
            before = ev.context.get("vf_release")
            md = ev.context.get("metadata", {})
            cur = state.get(md.get("lock_name"))
            if cur is not None and cur[1] == md.get("fencing_token") and lock.get_fencing_token(md.get("lock_name")) != cur[1]:
                released[(md.get("lock_name"), cur[1])] = now
        for ln in LOCKS:
            h, tok = lock.get_holder(ln), lock.get_fencing_token(ln)
            cur = state[ln]
            if h is None:
                if cur is not None and (ln, cur[1]) not in released:
                    counters["expired"] += 1
                    if now + 2 < cur[2] + lease_ns:
                        v("lease-ended-early-without-release",
                          f"lock {ln} token {cur[1]} held by {cur[0]} since {cur[2]} ns vanished at {now} ns, lease {lease_ns} ns")
                state[ln] = None
                continue
            if cur is not None and cur[1] == tok and cur[0] == h:
                continue
            # a new grant is visible in the manager
            if cur is not None and (ln, cur[1]) not in released and now + 2 < cur[2] + lease_ns:
                v("two-holders-lease-still-valid",
                  f"lock {ln}: token {tok} granted to {h} at {now} ns while token {cur[1]} of {cur[0]} (granted {cur[2]} ns, "
                  f"lease {lease_ns} ns) was neither released nor expired")
            if hist[ln] and tok <= hist[ln][-1][0]:
                v("fencing-token-not-increasing",
                  f"lock {ln}: grant to {h} has token {tok} after token {hist[ln][-1][0]} (holder {hist[ln][-1][1]})")
            hist[ln].append((tok, h, now))
            state[ln] = (h, tok, now)

    probe = SimProbe(sim, max_per_instant=5001, max_events=5000, log=False, on_event=on_event)
    status = probe.run()
    by_token = {}
    for ln, tok, holder, _ in grants:
        known = {(t, h) for t, h, _ in hist[ln]}
        if (tok, holder) not in known:
            v("client-grant-unknown-to-manager", f"lock {ln}: client {holder} received token {tok}; manager history {hist[ln][:6]}")
        prev = by_token.setdefault((ln, tok), holder)
        if prev != holder:
            v("fencing-token-given-to-two-holders", f"lock {ln} token {tok}: {prev} and {holder}")
    ngr = sum(len(h) for h in hist.values())
    r.nontrivial = ngr >= 3 and (counters["queued"] >= 1 or counters["expired"] >= 1)
    r.labels += [f"grants={min(ngr, 6)}", "expiry" if counters["expired"] else "no-expiry",
                 "queued" if counters["queued"] else "no-queue", "reentrant" if counters["reentrant"] else "no-reentrant"]
    if status != "done":
        r.labels.append("inconclusive-" + status)
    r.target = float(min(ngr, 10) + 2 * min(counters["expired"], 3) + min(counters["queued"], 3))
    return r



RULE_PAXOS = ("3-5 PaxosNodes, 1-4 client proposals of distinct values (strings and Python-falsy values 0, '', False, (), 0.0) on arbitrary nodes (also repeatedly on one node) at generated "
              "instants, per-message delays 0-300 ticks from the case (messages overtake each other and straddle retries), link loss "
              "0-40 % with scripted drop decisions, 0-2 partition windows, retry jitter from the case; non-trivial = at least two "
              "ballots were started and at least one message of an older ballot was delivered after a newer ballot had started")

RULE_SAFE = ("restricted domain of the {v} obligation in which none of its open findings can occur by construction: one start() call, "
             "reliable FIFO network with one constant delay 0-24 ticks, all (Q1,Q2), commands (0-8) only after every promise has arrived and "
             "only through replicating paths; every clause of the unrestricted obligation is judged with no exclusion; non-trivial = >= 2 "
             "commands and at least one slot committed")
RULE_LIVE = ("fault-free network, per-message delays 0-8 ticks from the case: (paxos) one proposer, one value: every node must report it "
             "and the future must resolve within 12 max-delays; (multi/flexible) one start(), k=1-3 commands given to the established leader "
             "(after 2 max-delays) through submit() / submit()+replication call / MultiPaxosForward: every command must be replicated, "
             "committed and applied in order at every node within 6 max-delays + 2 heartbeats; non-trivial = max delay >= 2 or k >= 2")

RULE_HANDOVER = ("leader hand-over of {v} on a fault-free FIFO network (one constant delay d = 1-40 ticks, no loss, no partition): L1 gets 1-3 "
                 "commands before its start(); after L1's commit was announced (>= 5d + one heartbeat later) a different node L2 gets 1-3 commands and start()s (higher ballot); a client "
                 "calls submit() on L1 at 0-3 instants from 2d before to 6d after the hand-over (incl. the window between L2's Prepare and "
                 "L2's first heartbeat reaching L1); heartbeat 16-256 ticks, all (Q1,Q2); judged with no exclusion: per-slot agreement, "
                 "validity, stability, applied order after every event, and every command handed to L1/L2 before their start() applied at "
                 "every node within 10d + 3 heartbeats; non-trivial = a submit inside the window, or the window is at least a quarter heartbeat")

OBLIGATIONS = [
    Obligation("paxos", paxos_strategy, lambda c: run_paxos(c, "paxos"), {"quick": 1400, "thorough": 80000}, RULE_PAXOS),
    Obligation("multi", log_strategy("multi"), lambda c: run_log(c, "multi", "multi"), {"quick": 700, "thorough": 40000},
               RULE_LOG.format(v="MultiPaxosNode")),
    Obligation("flexible", log_strategy("flexible"), lambda c: run_log(c, "flexible", "flexible"), {"quick": 700, "thorough": 40000},
               RULE_LOG.format(v="FlexiblePaxosNode")),
    Obligation("multi-safe", log_safe_strategy("multi"), lambda c: run_log_safe(c, "multi-safe", "multi"),
               {"quick": 450, "thorough": 20000}, RULE_SAFE.format(v="multi")),
    Obligation("flexible-safe", log_safe_strategy("flexible"), lambda c: run_log_safe(c, "flexible-safe", "flexible"),
               {"quick": 450, "thorough": 20000}, RULE_SAFE.format(v="flexible")),
    Obligation("multi-handover", handover_strategy, lambda c: run_handover(c, "multi-handover", "multi"),
               {"quick": 450, "thorough": 20000}, RULE_HANDOVER.format(v="MultiPaxosNode")),
    Obligation("flexible-handover", handover_strategy, lambda c: run_handover(c, "flexible-handover", "flexible"),
               {"quick": 450, "thorough": 20000}, RULE_HANDOVER.format(v="FlexiblePaxosNode")),
    Obligation("liveness", liveness_strategy(False), lambda c: run_liveness(c, "liveness"), {"quick": 500, "thorough": 20000}, RULE_LIVE),
    Obligation("liveness-safe", liveness_strategy(True), lambda c: run_liveness(c, "liveness-safe"), {"quick": 400, "thorough": 20000},
               RULE_LIVE + " — restricted to the paths that are live on this tree: single-decree Paxos, and Multi/Flexible Paxos on a FIFO "
               "network (one constant delay) with the submit()+replication call or the MultiPaxosForward event; no exclusion"),
    Obligation("election", election_strategy(False), lambda c: run_election(c, "election"), {"quick": 600, "thorough": 30000},
               "3-5 LeaderElection nodes x {Bully, Ring, Randomized(ballot_range=16)}, staggered start() instants, scripted delays 0-120 ticks, "
               "loss, partitions, 0-2 late joiners registered with add_member() on every node before they start, strategy draws from the "
               "case; judged after every event on (current_term, current_leader) of every node; non-trivial = >= 2 distinct (term, leader) "
               "pairs observed"),
    Obligation("election-safe", election_strategy(True), lambda c: run_election(c, "election-safe"), {"quick": 400, "thorough": 20000},
               "election obligation restricted to static membership (no add_member after construction), no exclusion"),
    Obligation("lock", lock_strategy, lambda c: run_lock(c, "lock"), {"quick": 1000, "thorough": 60000},
               "one DistributedLock (lease 3-400 ticks, max_waiters 0-2), 4 workers, 1-18 operations on 2 locks at generated instants: "
               "acquire (worker process waits on the future), try_acquire, release with the worker's last token, release with an arbitrary "
               "token, LockAcquireRequest / LockReleaseRequest events; lease-expiry events scheduled by the caller as in the repo's tests "
               "(occasionally forgotten); judged after every event on get_holder/get_fencing_token plus the grants the clients received; "
               "non-trivial = >= 3 grants and at least one queued waiter or one lease expiry"),
]
