"""Reference interpreter for the program DSL (see vfw/dsl/program.py).

Written from the documented engine semantics (CLAUDE.md, docstrings of Event / Simulation /
SimFuture), sharing no code with the tree under test:

* pending work is ordered by (timestamp, creation sequence); one creation counter is shared by
  everything the script creates, before and during the run;
* side-effect events of ``yield d, [events]`` are created before the continuation that follows
  them; returned events before completion-hook events; a future's resume continuation is created
  (and queued) at the moment of ``resolve`` (or of the wait, if the future is already resolved);
* an event stamped before the current clock is discarded, a cancelled event is skipped;
* with an end time, nothing later than it is live; without one the run stops when no live
  non-daemon work is pending (``strict``) — the implementation removes cancelled events lazily, so
  the ``lazy`` variant (a cancelled non-daemon event still counts until it is popped) is computed
  too and the oracle accepts either stop point.
"""
from __future__ import annotations

import heapq

from ..dsl.common import beh_of

EVENT_CAP = 120
TICK = 1_953_125  # 1/512 s in ns: exactly representable as float seconds and as integer ns


class RFuture:
    __slots__ = ("resolved", "value", "parked", "cbs")

    def __init__(self):
        self.resolved = False
        self.value = None
        self.parked = None
        self.cbs = []


class Ref:
    def __init__(self, prog, end_ns, stop_mode="lazy", max_steps=20000):
        self.p = prog
        self.end = end_ns
        self.stop_mode = stop_mode
        self.seq = 0
        self.heap = []
        self.now = int(prog.get("start", 0) or 0) * TICK
        self.log = []
        self.futs = [RFuture() for _ in range(prog["nfut"])]
        self.waited = set()
        self.handles = {}
        self.uid = 0
        self.primary_lazy = 0
        self.primary_live = 0
        self.ambiguous = False
        self.processed = 0
        self.cancel_skips = 0
        self.past_discards = 0
        self.max_steps = max_steps
        self.features = set()
        self._wakes = 0
        self.stash = {}          # entity -> delivered event objects it keeps (re-emitted, re-stamped, by a later "flush")

    # -------------------------------------------------------------- creation
    def nxt(self):
        self.seq += 1
        return self.seq

    def new_event(self, t, em, fuel):
        """An Event object is created now (consumes a creation index); queued later by the caller."""
        self.uid += 1
        if self.uid > EVENT_CAP:
            fuel = 0   # global size bound: events beyond the cap are delivered but emit nothing
        ev = {"k": "ev", "uid": self.uid, "tgt": em["tgt"] % self.p["n"], "kind": em["kind"] % 3,
              "daemon": bool(em.get("daemon")), "fuel": fuel, "cancelled": False, "queued": False,
              "hooks": [list(h) for h in (em.get("hooks") or [])], "t": t, "seq": self.nxt(), "done": False}
        if em.get("h") is not None:
            self.handles[em["h"]] = ev
        return ev

    def mk(self, em, fuel):
        t = max(0, self.now + em["dt"] * TICK + em.get("j", 0))
        return self.new_event(t, em, fuel)

    def push(self, item):
        item["queued"] = True
        heapq.heappush(self.heap, (item["t"], item["seq"], item))
        if not item["daemon"]:
            self.primary_lazy += 1
            if not item.get("cancelled"):
                self.primary_live += 1

    def push_cont(self, ps, send, tag):
        c = {"k": "cont", "ps": ps, "send": send, "tag": tag, "t": self.now, "seq": self.nxt(),
             "daemon": ps["daemon"], "cancelled": False}
        self.push(c)

    def cancel(self, h):
        ev = self.handles.get(h)
        if ev is None or ev["cancelled"]:
            return
        ev["cancelled"] = True
        if ev["queued"] and not ev["done"] and not ev["daemon"]:
            self.primary_live -= 1
        if ev["queued"] and not ev["done"]:
            self.features.add("cancel-pending")

    # -------------------------------------------------------------- futures
    def f_resolve(self, f, value):
        if f.resolved:
            self.features.add("double-resolve")
            return
        f.resolved = True
        f.value = value
        if f.parked is not None:
            ps, tag, when = f.parked
            f.parked = None
            self._wakes += 1
            self.features.add("resolved-at-wait-instant" if when == self.now else "resolved-after-wait")
            self.push_cont(ps, value, tag)
        cbs, f.cbs = f.cbs, []
        for cb in cbs:
            cb()

    def f_on_settle(self, f, cb):
        if f.resolved:
            cb()
        else:
            f.cbs.append(cb)

    def build(self, tree):
        """tree = int (leaf future id) | ["any"|"all", [subtrees]]; inner combinators are built first
        (argument evaluation order)."""
        if isinstance(tree, int):
            return self.futs[tree % len(self.futs)]
        op, subs = tree
        ins = [self.build(s) for s in subs]
        comp = RFuture()
        if op == "any":
            if sum(1 for f in ins if f.resolved) >= 2:
                self.ambiguous = True   # docs are silent on which pre-resolved input is reported
            for i, f in enumerate(ins):
                self.f_on_settle(f, lambda i=i, f=f: self.f_resolve(comp, [i, f.value]))
        else:
            state = {"left": len(ins), "vals": [None] * len(ins)}

            def settle(i, f):
                if comp.resolved:
                    return
                state["vals"][i] = f.value
                state["left"] -= 1
                if state["left"] == 0:
                    self.f_resolve(comp, list(state["vals"]))
            for i, f in enumerate(ins):
                self.f_on_settle(f, lambda i=i, f=f: settle(i, f))
        if any(f.resolved for f in ins):
            self.features.add("combinator-preresolved-input")
        if any(not isinstance(s, int) for s in subs):
            self.features.add("nested-combinator")
        return comp

    def top_resolve(self, fid, val):
        self._wakes = 0
        f = self.futs[fid % len(self.futs)]
        self.f_resolve(f, val)
        if self._wakes >= 2:
            self.ambiguous = True   # one resolve woke several processes: their order is unspecified

    def wait_on(self, f, ps, tag):
        if f.resolved:
            self.features.add("wait-already-resolved")
            self.push_cont(ps, f.value, tag)
        else:
            f.parked = (ps, tag, self.now)

    # -------------------------------------------------------------- processes
    def run_hooks(self, owner, out):
        hooks, owner["hooks"] = owner["hooks"], []
        for hk in hooks:
            self.log.append(("H", self.now, owner["uid"]))
            for em in hk:
                out.append(self.mk(em, owner["fuel"] - 1))

    def advance(self, ps):
        """Run the process until it yields or finishes. Returns events to queue afterwards."""
        out = []
        while ps["frames"]:
            steps, i, path = ps["frames"][-1]
            if i >= len(steps):
                ps["frames"].pop()
                if len(path) >= 2:
                    self.features.add("yield-from-depth>=2")
                continue
            st = steps[i]
            ps["frames"][-1][1] = i + 1
            tag = list(path) + [i]
            op = st[0]
            if op == "delay" or op == "delayfx" or op == "delaye":
                if op == "delayfx":
                    for em in st[2]:
                        out.append(self.mk(em, ps["fuel"] - 1))
                c = {"k": "cont", "ps": ps, "send": None, "tag": tag, "t": self.now + st[1] * TICK,
                     "seq": self.nxt(), "daemon": ps["daemon"], "cancelled": False}
                out.append(c)
                return out
            if op == "wait":
                fid = st[1] % len(self.futs) if self.futs else None
                if fid is None or (fid in self.waited and not self.futs[fid].resolved):
                    continue            # one parked process per future; yielding a future that is already resolved is always allowed
                if fid in self.waited:
                    self.features.add("resolved-future-yielded-again")
                self.waited.add(fid)
                if ps["owner"]["hooks"]:
                    self.features.add("parked-with-hooks")
                self.wait_on(self.futs[fid], ps, tag)
                return out
            if op == "waitc":
                if not self.futs:
                    continue
                comp = self.build(st[1])
                if ps["owner"]["hooks"]:
                    self.features.add("parked-with-hooks")
                self.wait_on(comp, ps, tag)
                return out
            if op == "resolve":
                if self.futs:
                    self.top_resolve(st[1], st[2])
                continue
            if op == "cancel":
                self.cancel(st[1])
                continue
            if op == "addhook":
                tgt = ps["owner"] if st[1] is None else self.handles.get(st[1])
                if tgt is not None:
                    # takes effect if that event has not finished yet (pending, or its process still in flight);
                    # a hook attached to a finished, cancelled or discarded event never fires
                    tgt["hooks"].append(list(st[2]))
                    self.features.add("hook-added-late")
                continue
            if op == "call":
                ps["frames"].append([st[1], 0, tag])
                continue
            if op == "ret":
                for em in st[1]:
                    out.append(self.mk(em, ps["fuel"] - 1))
                ps["frames"] = []
                break
        # finished
        self.log.append(("F", self.now, ps["pid"]))
        self.run_hooks(ps["owner"], out)
        return out

    # -------------------------------------------------------------- main loop
    def run(self):
        p = self.p
        order = sorted(range(len(p["initial"])), key=lambda i: (p["initial"][i].get("c", 0), i))
        created = {}
        for i in order:
            ie = p["initial"][i]
            t = max(0, ie["t"] * TICK + ie.get("j", 0))
            ev = self.new_event(t, ie, p["fuel"])
            if ie.get("cancel"):
                ev["cancelled"] = True
            created[i] = ev
        for i in range(len(p["initial"])):
            self.push(created[i])
        steps = 0
        while self.heap:
            steps += 1
            if steps > self.max_steps:
                raise RuntimeError("reference interpreter: step budget exceeded")
            if self.end is None:
                cnt = self.primary_lazy if self.stop_mode == "lazy" else self.primary_live
                if cnt <= 0:
                    break
            t, s, item = heapq.heappop(self.heap)
            if not item["daemon"]:
                self.primary_lazy -= 1
                if not item.get("cancelled"):
                    self.primary_live -= 1
            item["done"] = True
            if item["k"] == "ev" and item["cancelled"]:
                self.cancel_skips += 1
                continue
            if t < self.now:
                self.past_discards += 1
                if not item["daemon"]:
                    pass
                continue
            if self.end is not None and t > self.end:
                # nothing later than end_time is live; the heap is time-ordered, so stop here
                break
            if self.heap and self.heap[0][0] == t and item["k"] == "ev":
                pass
            self.now = t
            self.processed += 1
            if item["k"] == "ev":
                self.log.append(("D", t, item["tgt"], item["kind"], item["uid"]))
                self.deliver(item)
            else:
                ps = item["ps"]
                self.log.append(("R", t, ps["pid"], item["tag"], item["send"]))
                for x in self.advance(ps):
                    self.push(x)
        return self

    def deliver(self, ev):
        out = []
        if ev["fuel"] <= 0:
            self.run_hooks(ev, out)
            for x in out:
                self.push(x)
            return
        beh = beh_of(self.p, ev["tgt"], ev["kind"])
        if "imm" in beh:
            for fid, val in beh.get("resolve", []):
                if self.futs:
                    self.top_resolve(fid, val)
            created = [(em, self.mk(em, ev["fuel"] - 1)) for em in beh["imm"]]
            via = [x for em, x in created if em.get("via")]        # handed to sim.schedule() inside the handler: always queued
            evs = [x for em, x in created if not em.get("via")]    # returned: subject to the return shape
            for h in beh.get("cancel", []):
                self.cancel(h)
            if beh.get("flush"):
                # the held Event objects are returned again: same object (same creation index), new timestamp = now
                for held in self.stash.pop(ev["tgt"], []):
                    f = held["fuel"] - 1
                    if f < 0:
                        continue
                    self.uid += 1
                    held.update(uid=self.uid, fuel=f, t=self.now, done=False, queued=False)
                    evs.append(held)
                    self.features.add("restamped-event")
            if beh.get("stash"):
                self.stash.setdefault(ev["tgt"], []).append(ev)
            shape = beh.get("shape", "list")
            if shape == "none":
                evs = []
            elif shape == "one":
                evs = evs[:1]
            out.extend(via)
            out.extend(evs)
            self.run_hooks(ev, out)
        else:
            self.nxt()  # the first ProcessContinuation object consumes a creation index, never queued
            ps = {"pid": ev["uid"], "daemon": ev["daemon"], "fuel": ev["fuel"], "owner": ev,
                  "frames": [[beh["proc"], 0, []]]}
            out = self.advance(ps)
        for x in out:
            self.push(x)


def run_ref(prog, end_ns=None, stop_mode="lazy"):
    return Ref(prog, end_ns, stop_mode).run()
