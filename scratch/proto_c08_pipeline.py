"""Throw-away: C08 pipeline oracle (sampling at time advance) on Server + documented QueuedResource pattern."""
import random, sys
from collections import Counter
from happysimulator import Simulation, Event, Instant, Entity
from happysimulator.components.queued_resource import QueuedResource
from happysimulator.components.queue_policy import FIFOQueue
from happysimulator.components.server.server import Server
from happysimulator.distributions.constant import ConstantLatency
TICK=1_953_125
class SinkE(Entity):
    def __init__(s): super().__init__("sink"); s.got=[]
    def handle_event(s,e): s.got.append((s.now.nanoseconds,e.context.get("rid")))
class Relay(Entity):
    def __init__(s,n,t): super().__init__(n); s.t=t
    def handle_event(s,e): return [Event(time=s.now,event_type=e.event_type,target=s.t,context=e.context)]
class MyServer(QueuedResource):   # exactly the CLAUDE.md pattern
    def __init__(s,name,downstream,concurrency,svc_ticks,cap):
        super().__init__(name,policy=FIFOQueue(capacity=cap)); s.downstream=downstream; s.concurrency=concurrency; s._in_flight=0; s.svc=svc_ticks; s.started=[]; s.done=0
    def has_capacity(s): return s._in_flight<s.concurrency
    def handle_queued_event(s,e):
        s._in_flight+=1; s.started.append((s.now.nanoseconds,e.context.get("rid")))
        try: yield s.svc/512
        finally: s._in_flight-=1
        s.done+=1
        return [Event(time=s.now,event_type="Done",target=s.downstream,context=e.context)]
def run(seed):
    rng=random.Random(seed); res=set()
    sink=SinkE(); conc=rng.choice([1,1,2,3]); svc=rng.choice([1,2,4]); cap=rng.choice([float("inf"),float("inf"),1,2,3])
    lib=rng.random()<0.5
    if lib: srv=Server("srv",concurrency=conc,service_time=ConstantLatency(svc/512),queue_capacity=None if cap==float("inf") else cap,downstream=sink)
    else: srv=MyServer("srv",sink,conc,svc,cap)
    r1=Relay("r1",srv); r2=Relay("r2",r1)
    sim=Simulation(entities=[srv,sink,r1,r2],end_time=Instant(1000*TICK))
    n=rng.randint(1,10)
    for i in range(n):
        sim.schedule(Event(time=Instant(rng.choice([0,0,1,2,2,3,4,6])*TICK),event_type="req",target=rng.choice([srv,srv,r1,r2]),context={"rid":i}))
    def sample(t):
        depth=srv.depth
        if lib: ins=srv.active_requests; lim=srv.concurrency; comp=srv.stats.requests_completed; rej=srv.stats.requests_rejected
        else: ins=srv._in_flight; lim=srv.concurrency; comp=srv.done; rej=0
        arrived=srv.stats_accepted+srv.stats_dropped
        if ins>lim: res.add("over-limit")
        if depth>0 and ins<lim: res.add("stranded")
        if srv.stats_accepted != depth+ins+comp+rej: res.add("conservation")
    sim.control.on_time_advance(sample)
    sim.run(); sample(None)
    ids=[r for _,r in sink.got]
    if len(ids)!=len(set(ids)): res.add("dup-completion")
    if srv.depth: res.add("left-in-queue")
    acc=srv.stats_accepted; comp=(srv.stats.requests_completed if lib else srv.done); rej=(srv.stats.requests_rejected if lib else 0)
    if acc+srv.stats_dropped!=n: res.add("arrivals-miscounted")
    if comp+rej!=acc: res.add("accepted!=completed+rejected")
    if len(ids)!=comp: res.add("sink!=completed")
    if lib and rej: res.add("INFO:server-rejected-after-dequeue")
    return ("lib" if lib else "doc"),res
tot={}
for s in range(int(sys.argv[1])):
    k,res=run(s)
    for r in res: tot.setdefault((k,r),[]).append(s)
for k,v in sorted(tot.items()): print(k,len(v),v[:4])
