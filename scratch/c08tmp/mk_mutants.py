import json
R="happysimulator/components/"
M=[
 dict(id="C08-m1", file=R+"queue.py", old="        if was_empty:\n", new="        if False:\n", note="Queue never notifies the driver (M38b)", only="qd"),
 dict(id="C08-m2", file=R+"queue_driver.py", old="        if not self.target.has_capacity():\n            logger.debug(\"[%s] Notify received but target at capacity\", self.name)\n            return []\n", new="", note="driver polls on notify without a capacity check (M39)", only="qd"),
 dict(id="C08-m3", file=R+"queue_driver.py", old="        target_event.add_completion_hook(schedule_poll)\n", new="", note="completion hook re-poll removed (M40)", only="qd"),
 dict(id="C08-m4", file=R+"queue_policy.py", old="        entry = _PriorityEntry(priority, self._insert_counter, item)", new="        entry = _PriorityEntry(priority, -self._insert_counter, item)", note="PriorityQueue ties not FIFO (M41)", only="policy"),
 dict(id="C08-m5", file=R+"queue_policy.py", old="        if len(self._queue) >= self.capacity:\n            return False\n        self._queue.append(item)\n        return True\n\n    def pop(self) -> T | None:\n        if not self._queue:\n            return None\n        return self._queue.popleft()",
      new="        if len(self._queue) > self.capacity:\n            return False\n        self._queue.append(item)\n        return True\n\n    def pop(self) -> T | None:\n        if not self._queue:\n            return None\n        return self._queue.popleft()", note="FIFOQueue.push off-by-one capacity (M42)", only="policy"),
 dict(id="C08-m6", file=R+"server/server.py", old="        # Release processing capacity\n        self._concurrency_model.release(weight)\n", new="", note="Server forgets release on completion (M43)", only="server"),
 dict(id="C08-m7", file=R+"server/server.py", old="            self._requests_rejected += 1\n", new="", note="requests_rejected not counted (M44)", only="server"),
 dict(id="C08-m8", file=R+"queue_policy.py", old="        return self._queue.pop()  # LIFO: pop from right", new="        return self._queue.popleft()", note="LIFOQueue pops the oldest", only="policy"),
 dict(id="C08-m9", file=R+"queue_policies/deadline_queue.py", old="            if now is not None and entry.deadline < now:\n                self._expired += 1\n                continue", new="            if now is not None and entry.deadline < now:\n                continue", note="DeadlineQueue drops expired items without counting them", only="policy"),
 dict(id="C08-m10", file=R+"queue_policies/fair_queue.py", old="        # Move this flow to the end (round-robin)\n        self._flows.move_to_end(flow_id)\n", new="", note="FairQueue keeps serving the same flow", only="policy"),
 dict(id="C08-m11", file=R+"queue.py", old="            self.stats_dropped += 1\n", new="", note="Queue does not count dropped items", only="qd"),
 dict(id="C08-m12", file=R+"queue_policies/codel.py", old="            self._queue.popleft()\n            self._dropped += 1", new="            self._queue.popleft()", note="CoDel drops without counting", only="policy"),
 dict(id="C08-m13", file=R+"industrial/pooled_cycle.py", old="        if self._queue and self._available > 0:", new="        if False:", note="PooledCycleResource never serves its queue", only="industrial"),
 dict(id="C08-m14", file=R+"industrial/gate_controller.py", old="        while self._queue:\n            queued = self._queue.popleft()", new="        while len(self._queue) > 1:\n            queued = self._queue.popleft()", note="GateController leaves one item behind when it opens", only="industrial"),
 dict(id="C08-m15", file=R+"industrial/conveyor.py", old="        if self._capacity > 0 and self._items_in_transit >= self._capacity:", new="        if self._capacity > 0 and self._items_in_transit > self._capacity:", note="ConveyorBelt admits capacity+1", only="industrial"),
 dict(id="C08-m16", file=R+"queue_policies/weighted_fair_queue.py", old="                item = flow_state.queue.popleft()\n                self._total_items -= 1", new="                item = flow_state.queue.popleft()", note="WeightedFairQueue length not decremented on pop", only="policy"),
 dict(id="C08-m17", file=R+"industrial/batch_processor.py", old="        batch = list(self._buffer)", new="        batch = list(self._buffer[1:])", note="BatchProcessor loses the first item of every batch", only="industrial"),
 dict(id="C08-m18", file=R+"queue_policies/adaptive_lifo.py", old="            item = self._queue.pop()\n            self._dequeued_lifo += 1", new="            item = self._queue.pop()", note="AdaptiveLIFO does not count LIFO dequeues", only="policy"),
]
for m in M:
    m["prop"]="C08"
    src=open("/repo/"+m["file"]).read()
    assert src.count(m["old"])>=1, m["id"]
json.dump(M,open("/verif/sensitivity/mutants_C08.json","w"),indent=1)
print(len(M))
