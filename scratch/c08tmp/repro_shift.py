from happysimulator import Simulation, Event, Instant, Entity
from happysimulator.components.industrial.shift_schedule import ShiftedServer, ShiftSchedule, Shift
class Sink(Entity):
    def handle_event(s, e): print("done", e.context["rid"], "at", s.now.to_seconds())
sink = Sink("sink")
srv = ShiftedServer("srv", ShiftSchedule([Shift(5.0, 100.0, 2)], default_capacity=0), service_time=1.0, downstream=sink)
sim = Simulation(entities=[srv, sink], end_time=Instant.from_seconds(50))
for i, t in enumerate([1.0, 2.0]): sim.schedule(Event(time=Instant.from_seconds(t), event_type="job", target=srv, context={"rid": i}))
sim.run(); print("capacity", srv.current_capacity, "still queued", srv.depth, "processed", srv.processed)
