from happysimulator.components.industrial.shift_schedule import ShiftedServer, ShiftSchedule, Shift
from happysimulator.components.industrial.reneging import RenegingQueuedResource
from happysimulator.components.queue_policy import FIFOQueue, LIFOQueue
class R(RenegingQueuedResource):
    def _handle_served_event(self, e): yield 1.0
mine = LIFOQueue(capacity=2)
r = R("r", policy=mine)
s = ShiftedServer("s", ShiftSchedule([Shift(0, 10, 1)]), policy=FIFOQueue(capacity=2))
print("reneging uses my policy:", r.queue.policy is mine, type(r.queue.policy).__name__, r.queue.policy.capacity)
print("shifted capacity:", s.queue.policy.capacity)
