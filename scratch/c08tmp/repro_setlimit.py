from happysimulator import Simulation, Event, Instant, Entity
from happysimulator.components.server.server import Server
from happysimulator.components.server.concurrency import DynamicConcurrency
from happysimulator.distributions.constant import ConstantLatency
class Sink(Entity):
    def handle_event(s, e): print("done", e.context["rid"], "at", s.now.to_seconds())
class Ctl(Entity):
    def handle_event(s, e): cm.set_limit(3); print("limit raised to", cm.limit, "at", s.now.to_seconds(), "queued", srv.depth, "active", srv.active_requests)
sink, ctl, cm = Sink("sink"), Ctl("ctl"), DynamicConcurrency(1)
srv = Server("srv", concurrency=cm, service_time=ConstantLatency(10.0), downstream=sink)
sim = Simulation(entities=[srv, sink, ctl], end_time=Instant.from_seconds(100))
for i in range(3): sim.schedule(Event(time=Instant.from_seconds(0), event_type="job", target=srv, context={"rid": i}))
sim.schedule(Event(time=Instant.from_seconds(1), event_type="scale", target=ctl)); sim.run()
