"""Throw-away: are the C10 bounds/tolerances in DESIGN.md sound on the pinned tree?"""
import random, copy, sys
from fractions import Fraction
from happysimulator.core.temporal import Instant, Duration
from happysimulator.components.rate_limiter.policy import (TokenBucketPolicy, LeakyBucketPolicy,
    SlidingWindowPolicy, FixedWindowPolicy, AdaptivePolicy)
NS=10**9
def arrivals(rng, special):
    t=0; out=[]
    for _ in range(rng.randint(1,60)):
        g=rng.choice([0,0,1,2,rng.choice(special),rng.choice(special)-1,rng.choice(special)+1,rng.randint(0,2*max(special))])
        t+=max(0,g); out.append(t)
    return out
def check_tua(p, now_ns, res):
    q=copy.deepcopy(p)
    w=q.time_until_available(Instant(now_ns))
    if w==Duration.ZERO:
        if not copy.deepcopy(q).try_acquire(Instant(now_ns)): res.add("tua0-but-denied")
    else:
        if copy.deepcopy(q).try_acquire(Instant(now_ns)): res.add("tua>0-but-admits-now")
        for frac in (0.5,1.0):
            tt=now_ns+max(0,int((w.nanoseconds-1)*frac))
            if tt<now_ns+w.nanoseconds and copy.deepcopy(q).try_acquire(Instant(tt)) and tt>now_ns: res.add(f"admits-before-wait-elapsed")
        # drain
        q2=copy.deepcopy(q); t=now_ns; ok=False
        for step in range(5):
            ww=q2.time_until_available(Instant(t))
            if ww==Duration.ZERO:
                ok=q2.try_acquire(Instant(t)); break
            t+=ww.nanoseconds
        if not ok: res.add("drain-stalls>4")
def run(seed):
    rng=random.Random(seed); res=set()
    kind=rng.choice(["tb","lb","sw","fw","ad"])
    if kind=="tb":
        cap=rng.choice([1,2,5,10]); rate=rng.choice([1.0,3.0,7.0,10.0,1000.0,0.5])
        p=TokenBucketPolicy(capacity=cap,refill_rate=rate); special=[int(NS/rate)]
    elif kind=="lb":
        rate=rng.choice([1.0,3.0,7.0,10.0,1000.0]); p=LeakyBucketPolicy(leak_rate=rate); special=[int(NS/rate)]
    elif kind=="sw":
        W=rng.choice([1.0,0.1,0.3,0.57,0.001]); N=rng.choice([1,2,3,5]); p=SlidingWindowPolicy(W,N); special=[round(W*NS)]
    elif kind=="fw":
        W=rng.choice([1.0,0.1,0.3,0.57,0.001]); N=rng.choice([1,2,3,5]); p=FixedWindowPolicy(N,W); special=[round(W*NS)]
    else:
        p=AdaptivePolicy(initial_rate=rng.choice([2.0,10.0]),min_rate=1.0,max_rate=50.0,window_size=rng.choice([1.0,0.5])); special=[NS//10, NS//2]
    ts=arrivals(rng,special); adm=[]; rates=[]
    for t in ts:
        if rng.random()<0.3: check_tua(p,t,res)
        if kind=="ad" and rng.random()<0.3:
            (p.record_success if rng.random()<0.5 else p.record_failure)(Instant(t))
            if not (p.min_rate<=p.current_rate<=p.max_rate): res.add("rate-out-of-range")
        if p.try_acquire(Instant(t)): adm.append(t)
    if kind=="tb":
        for i in range(len(adm)):
            for j in range(i,len(adm)):
                if (j-i+1) > cap + rate*(adm[j]-adm[i])/NS + 1e-6: res.add("tb-bound")
    if kind=="lb":
        for a,b in zip(adm,adm[1:]):
            if b-a < NS/rate - 1: res.add(f"lb-spacing")
    if kind=="sw":
        Wn=round(W*NS)
        for i in range(len(adm)-N):
            if adm[i+N]-adm[i] < Wn-1: res.add("sw-bound")
    if kind=="fw":
        Wn=round(W*NS)
        from collections import Counter
        c=Counter(t//Wn for t in adm)
        if max(c.values(),default=0)>N: res.add("fw-aligned")
        for i in range(len(adm)-2*N):
            if adm[i+2*N]-adm[i] < Wn: res.add("fw-2N")
    return kind,res
tot={}
for s in range(int(sys.argv[1])):
    k,res=run(s)
    for r in res: tot.setdefault((k,r),[]).append(s)
print({k:(len(v),v[:4]) for k,v in tot.items()})

def debug(seed):
    import random
    rng=random.Random(seed)
    # replicate run() but print at stall
    global check_tua
    orig=check_tua
    def chk(p,now_ns,res):
        before=set(res); orig(p,now_ns,res)
        if "drain-stalls>4" in res-before:
            q2=copy.deepcopy(p); t=now_ns
            print("STALL at",now_ns,type(p).__name__, {k:v for k,v in vars(p).items() if k!='rate_history'})
            for step in range(6):
                ww=q2.time_until_available(Instant(t)); print("  t",t,"tua",ww.nanoseconds,"tokens",getattr(q2,'_tokens',None))
                if ww==Duration.ZERO: print("  acq",q2.try_acquire(Instant(t))); break
                t+=ww.nanoseconds
            raise SystemExit
    check_tua=chk
    run(seed)
if len(sys.argv)>2: debug(int(sys.argv[2]))
