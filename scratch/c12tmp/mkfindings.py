import json, glob, os, re
W = {
 # ---- single-decree Paxos (fix patches available) -----------------------------------------------------------------
 "C12/paxos/p1-two-values-in-one-ballot": "PaxosNode restarts phase 2 on every Promise at/after the quorum (paxos.py _handle_promise `>=`): a later promise that reports an accepted value makes the same ballot send Accept with a second value [fix: scratch/fixes/C12-paxos-phase2-once-per-ballot.patch]",
 "C12/paxos/d1-decided-without-quorum-of-acceptors": "same root cause as p1: the re-sent Accepts make one acceptor answer Accepted twice and _handle_accepted counts messages, so a proposer decides with fewer than a quorum of distinct acceptors (fault-free, one proposer, n=5) [fix: C12-paxos-phase2-once-per-ballot.patch]",
 "C12/paxos/agreement-two-values-decided": "two nodes report different proposed values as decided (consequence of phase 2 restarted per promise / duplicate Accepted counting) [fix: C12-paxos-phase2-once-per-ballot.patch]",
 "C12/paxos/d2-decided-value-not-the-ballots-value": "a retry (_handle_retry) moves value and future to the new ballot but the old ballot's tallies stay live: a late Accepted for the abandoned ballot reaches the quorum and _decide() looks the value up as None [fix: C12-paxos-abandoned-ballot.patch]",
 "C12/paxos/p2-value-neither-reported-nor-proposed": "same root cause as d2: a late Promise for a ballot abandoned by a retry starts phase 2 with value None (Accept(None) on the wire) [fix: C12-paxos-abandoned-ballot.patch]",
 "C12/paxos/validity-decided-value-not-proposed": "a node reports decided_value None although None was never proposed (consequence of the abandoned-ballot defect) [fix: C12-paxos-abandoned-ballot.patch]",
 "C12/paxos/agreement-with-unproposed-value": "one node decides a proposed value, another one None (consequence of the abandoned-ballot defect) [fix: C12-paxos-abandoned-ballot.patch]",
 "C12/paxos/p3-phase2-without-quorum-of-promises": "promises are tallied without de-duplication: propose()+start_phase1() on a node that meanwhile learned the decision re-runs start_phase1 for the unchanged ballot, the self-promise is appended a second time and phase 2 starts with fewer than a quorum of distinct promisers [fix: C12-paxos-distinct-promisers.patch]",
}
for var, mod in (("multi", "multi_paxos.py"), ("flexible", "flexible_paxos.py")):
    W.update({
 f"C12/{var}/p2-leader-ignores-accepted-entry-in-promises": f"{mod} _become_leader never reads the log_entries of the promises it collected: a new leader assigns its own command to a slot for which a promise reported an accepted entry",
 f"C12/{var}/p3-leader-without-quorum-of-promises": f"{mod} _handle_promise counts promises of an older ballot of the same node towards leadership of its current ballot (start() called twice: promises for ballot 1 make the node leader of ballot 2), and _begin_phase1 does not clear is_leader",
 f"C12/{var}/p0-became-leader-under-foreign-ballot": f"{mod} _handle_promise is keyed by ballot *number* and never checks that the node is still a candidate: after the node promised another node's ballot (its _current_ballot now is the foreign one) a late promise for its own abandoned ballot makes it leader and it replicates under the foreign ballot",
 f"C12/{var}/p0-deposed-leader-replicates-under-foreign-ballot": f"{mod} _handle_accept adopts the sender's ballot as _current_ballot without clearing _is_leader: the deposed leader keeps replicating and stamps its Accepts with the other leader's ballot",
 f"C12/{var}/p1-two-commands-in-one-ballot-and-slot": f"{mod}: a leader whose log was truncated by another leader's Accept (it stays is_leader, see p0) re-assigns the slot to a new command under its unchanged ballot: two different commands in one (ballot, slot)",
 f"C12/{var}/a2-accepted-but-slot-holds-other-entry-gap": f"{mod} _handle_accept appends an Accept whose slot is beyond the end of the log at last_index+1 instead of at its slot (reordered/lost Accepts): the acceptor acknowledges slot s while holding the command in another slot",
 f"C12/{var}/a2-accepted-but-slot-holds-other-entry-kept-old": f"{mod} _handle_accept keeps an existing entry whenever its term equals the ballot *number* (ballots (n,A) and (n,B) are conflated; also after a misplaced append) and still answers Accepted",
 f"C12/{var}/d1-same-acceptor-counted-twice": f"{mod} _become_leader is re-run on every promise at/after the quorum and re-sends every uncommitted slot; _handle_accepted counts messages, so one acceptor is counted twice (commit with fewer than Q2 distinct acceptors, fault-free)",
 f"C12/{var}/d1-accepted-of-other-ballot-or-command-counted": f"{mod} _slot_acks is keyed by slot only: Accepted messages of an earlier ballot / for another command at that slot count towards the current entry",
 f"C12/{var}/d1-earlier-slot-committed-without-its-own-quorum": f"{mod} _handle_accepted calls log.advance_commit(slot): when slot s reaches its quorum every lower slot is committed too, whether or not it was acknowledged (reordering is enough, one leader)",
 f"C12/{var}/d2-committed-command-never-sent-in-accept": f"{mod} _handle_accepted runs on any node and any ballot: a deposed leader whose slot was overwritten by the new leader's command commits it when late acknowledgements of its own old command arrive (it never sent an Accept for the command it reports decided)",
 f"C12/{var}/agreement-slot-two-commands": f"two nodes report different commands for one committed slot (reachable with ONE leader and message reordering only: misplaced append + commit index taken from the leader without log matching; also with competing leaders)",
 f"C12/{var}/stability-slot-decision-changed": f"a node changes the command it reports for a committed slot ({mod} _handle_accept truncates the log below commit_index)",
 f"C12/{var}/stability-commit-index-decreased": f"Log.truncate_from lowers commit_index when {mod} _handle_accept truncates committed entries: a reported decision is retracted",
 f"C12/{var}/applied-differs-from-committed-slot": f"the state machine applied a command at position i that differs from the command the node reports for slot i (entry replaced after it was applied)",
 f"C12/{var}/future-resolved-by-foreign-command": f"{mod} _slot_futures is keyed by slot: a submit() future resolves when another command is committed at that slot",
    })
W.update({
 "C12/liveness/command-given-to-established-leader-never-replicated-multi-submit": "MultiPaxosNode.submit() on an established leader appends to the local log and returns a future; nothing is ever sent (submit cannot emit events): the command is never decided",
 "C12/liveness/command-given-to-established-leader-never-replicated-flexible-submit": "FlexiblePaxosNode.submit() on an established leader appends locally and never replicates (the shipped example calls the private _replicate_slot itself)",
 "C12/liveness/commit-never-announced-to-followers-multi": "MultiPaxosNode._handle_heartbeat treats its own heartbeat timer event as a foreign heartbeat: no further heartbeats are sent, followers never learn the last commit index [fix: C12-multipaxos-own-heartbeat-timer.patch]",
 "C12/liveness/leader-lost-leadership-without-competitor-multi": "same root cause: the leader's own heartbeat timer (ballot >= current) sets _is_leader False one heartbeat interval after it won [fix: C12-multipaxos-own-heartbeat-timer.patch]",
 "C12/liveness/follower-log-differs-from-leaders-multi": "fault-free, bounded delays, one leader: two Accepts overtake each other and the follower stores slot 2's command in slot 1 (append at last_index+1), so the commands are never applied in order everywhere",
 "C12/liveness/follower-log-differs-from-leaders-flexible": "same as multi (FlexiblePaxosNode._handle_accept is a copy)",
 "C12/election/two-leaders-in-one-term-bully-after-join": "LeaderElection terms are local counters (_current_term += 1 on every local election / received victory; the term in messages is ignored): after a higher-id member is registered with add_member(), the old leader and the newcomer both report themselves leader of the same term number",
 "C12/election/two-leaders-in-one-term-ring-after-join": "same root cause with RingStrategy",
})
FIXED_BY = {}
out = []
wit = {}
for f in sorted(glob.glob("/verif/replays/C12/known-*.json")):
    d = json.load(open(f)); wit.setdefault(d["signature"], "replays/C12/" + os.path.basename(f))
wit = {}
ALT = "74bbbf5b94876f7e"      # second witness of multi/p1: reproduces only once the Multi-Paxos heartbeat fix is applied
for f in sorted(glob.glob("/verif/replays/C12/known-*.json")):
    d = json.load(open(f))
    if ALT in f:
        continue
    wit.setdefault(d["signature"], "replays/C12/" + os.path.basename(f))
alt_entry = None
for sig, what in W.items():
    out.append({"property": "C12", "signature": sig, "status": "open", "witness": wit.get(sig), "what": what})
    if sig == "C12/multi/p1-two-commands-in-one-ballot-and-slot":
        alt = [f for f in glob.glob("/verif/replays/C12/known-multi-p1-*.json") if ALT in f]
        if alt:
            alt_entry = {"property": "C12", "signature": sig, "status": "open", "witness": "replays/C12/" + os.path.basename(alt[0]), "what": what}
fixmap = {}
for e in out:
    m = re.search(r"\[fix: (?:scratch/fixes/)?(C12-[a-z0-9-]+\.patch)\]", e["what"])
    if m:
        fixmap.setdefault(m.group(1), []).append(e["signature"])
doc = {
 "_doc": "Proposed known_findings.json entries for C12 (all reproduce on /repo HEAD 6d111bd). 'findings' is directly usable with VFW_EXTRA_KNOWN. "
         "'when_fix_committed' lists, per fix patch in scratch/fixes/, the signatures that disappear (turn them into status=fixed entries, their "
         "witnesses then serve as regression replays) and witness replacements that become necessary.",
 "findings": out,
 "when_fix_committed": {k: {"signatures_fixed": v} for k, v in sorted(fixmap.items())},
}
if alt_entry:
    doc["when_fix_committed"]["C12-multipaxos-own-heartbeat-timer.patch"]["replace_witness"] = [alt_entry]
    doc["when_fix_committed"]["C12-multipaxos-own-heartbeat-timer.patch"]["note"] = (
        "with this patch the first witness of C12/multi/p1-two-commands-in-one-ballot-and-slot no longer reproduces (the scenario depended on the "
        "self-demotion); use the replacement witness, which reproduces only on the patched tree. All other multi/* witnesses reproduce on both trees.")
json.dump(doc, open("/verif/scratch/proposed_findings_C12.json", "w"), indent=1)
print(len(out), "entries;", sum(1 for e in out if e["witness"]), "with witness;", {k: len(v["signatures_fixed"]) for k, v in doc["when_fix_committed"].items()})
