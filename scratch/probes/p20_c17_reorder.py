import random
from happysimulator import Simulation, Event, Instant, Entity
from happysimulator.components.network.network import Network
from happysimulator.components.network.link import NetworkLink
from happysimulator.components.datastore.kv_store import KVStore
from happysimulator.components.replication.primary_backup import PrimaryNode, BackupNode, ReplicationMode
from happysimulator.components.replication.chain_replication import build_chain
from happysimulator.distributions.latency_distribution import LatencyDistribution
from happysimulator.core.temporal import Duration
from happysimulator.core.sim_future import SimFuture
class Seq(LatencyDistribution):
    def __init__(s,vals): super().__init__(0.01); s.vals=list(vals); s.i=0
    def get_latency(s,now):
        v=s.vals[s.i%len(s.vals)]; s.i+=1; return Duration.from_seconds(v)
def pb():
    net=Network(name="net"); pk=KVStore("pk"); bk=KVStore("bk")
    b=BackupNode("b",bk,net,primary=None); p=PrimaryNode("p",pk,[b],net,mode=ReplicationMode.ASYNC); b._primary=p
    net.add_link(p,b,NetworkLink(name="pb",latency=Seq([0.5,0.01]))); net.add_link(b,p,NetworkLink(name="bp",latency=Seq([0.01])))
    sim=Simulation(entities=[net,p,b,pk,bk],end_time=Instant.from_seconds(10))
    for t,v in [(0.0,"v1"),(0.1,"v2")]:
        sim.schedule(Event(time=Instant.from_seconds(t),event_type="Write",target=p,context={"metadata":{"key":"k","value":v}}))
    sim.run(); return pk.get_sync("k"), bk.get_sync("k")
print("primary-backup after quiescence (primary, backup):",pb())
def chain():
    net=Network(name="net")
    nodes=build_chain(["h","m","t"],net,lambda n: KVStore(n))
    net.add_link(nodes[0],nodes[1],NetworkLink(name="hm",latency=Seq([0.5,0.01]))); net.add_link(nodes[1],nodes[2],NetworkLink(name="mt",latency=Seq([0.01])))
    net.add_link(nodes[2],nodes[0],NetworkLink(name="th",latency=Seq([0.01])))
    sim=Simulation(entities=[net,*nodes],end_time=Instant.from_seconds(10))
    for t,v in [(0.0,"v1"),(0.1,"v2")]:
        sim.schedule(Event(time=Instant.from_seconds(t),event_type="Write",target=nodes[0],context={"metadata":{"key":"k","value":v,"reply_future":SimFuture()}}))
    sim.run(); return [n.store.get_sync("k") for n in nodes]
print("chain after quiescence (head, mid, tail):",chain())
