import logging, random
from happysimulator import Simulation, Event, Instant, Entity
from happysimulator.components.datastore.kv_store import KVStore
from happysimulator.components.rate_limiter.rate_limited_entity import RateLimitedEntity
from happysimulator.components.rate_limiter.policy import TokenBucketPolicy, FixedWindowPolicy
from happysimulator.components.rate_limiter.distributed import DistributedRateLimiter
from happysimulator.components.crdt.crdt_store import CRDTStore
from happysimulator.components.crdt.g_counter import GCounter
from happysimulator.components.network.network import Network
from happysimulator.components.network.link import NetworkLink
from happysimulator.distributions.constant import ConstantLatency
class Rec(Entity):
    def __init__(s,n): super().__init__(n); s.log=[]
    def handle_event(s,e): s.log.append((s.now.to_seconds(), e.context.get("rid")))
# RateLimitedEntity ordering: capacity 1, rate 1/s; arrivals r0@0 (fwd), r1@0.1 (queued, poll at 1.0), r2@1.0 scheduled pre-run (arrives at poll instant)
rec=Rec("rec"); rl=RateLimitedEntity("rl",rec,TokenBucketPolicy(capacity=1,refill_rate=1.0),queue_capacity=10)
sim=Simulation(entities=[rl,rec],end_time=Instant.from_seconds(10))
for rid,t in [(0,0.0),(1,0.1),(2,1.0)]:
    sim.schedule(Event(time=Instant.from_seconds(t),event_type="req",target=rl,context={"rid":rid}))
sim.run(); print("RLE order:",rec.log, rl.stats)
# Distributed RL stale now
logging.basicConfig(level=logging.ERROR)
rec=Rec("rec"); kv=KVStore("kv"); d=DistributedRateLimiter("d",rec,kv,global_limit=5,window_size=1.0)
sim=Simulation(entities=[d,rec,kv],end_time=Instant.from_seconds(10))
sim.schedule(Event(time=Instant.from_seconds(0.5),event_type="req",target=d,context={"rid":0}))
sim.run(); print("DRL:",rec.log,d.stats.requests_forwarded)
# FixedWindow boundary
p=FixedWindowPolicy(requests_per_window=2,window_size=0.1)
adm=[]
for t_ns in [300_000_000,300_000_000,300_000_001,300_000_002,350_000_000]:
    if p.try_acquire(Instant(t_ns)): adm.append(t_ns)
print("FW admitted in [0.3,0.4):",adm)
# CRDTStore node id
net=Network(name="net")
a=CRDTStore("A",net,crdt_factory=lambda nid: GCounter(nid),gossip_interval=1.0)
b=CRDTStore("B",net,crdt_factory=lambda nid: GCounter(nid),gossip_interval=1.0)
a.add_peers([b]); b.add_peers([a])
net.add_link(a,b,NetworkLink(name="ab",latency=ConstantLatency(0.01))); net.add_link(b,a,NetworkLink(name="ba",latency=ConstantLatency(0.01)))
sim=Simulation(entities=[net,a,b],end_time=Instant.from_seconds(20))
def w(t,tgt): sim.schedule(Event(time=Instant.from_seconds(t),event_type="Write",target=tgt,context={"metadata":{"key":"c","operation":"increment","value":1}}))
w(0.5,a); 
for e in (a.get_gossip_event(), b.get_gossip_event()): sim.schedule(e)
w(5.0,b); w(5.0,a)
random.seed(1); sim.run()
print("CRDT counter values:", a.crdts["c"].value, b.crdts["c"].value, "expected 3", a.crdts["c"].to_dict(), b.crdts["c"].to_dict())
