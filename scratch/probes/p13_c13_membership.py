import random
from happysimulator import Simulation, Event, Instant, Entity
from happysimulator.components.consensus.membership import MembershipProtocol, MemberState
from happysimulator.components.network.network import Network
from happysimulator.components.network.link import NetworkLink
from happysimulator.distributions.constant import ConstantLatency
from happysimulator.faults.schedule import FaultSchedule
from happysimulator.faults.node_faults import CrashNode
def cluster(n, crash_at=None, T=120):
    random.seed(3)
    net=Network(name="net"); ms=[MembershipProtocol(f"m{i}",net,probe_interval=1.0,suspicion_timeout=3.0) for i in range(n)]
    for a in ms:
        for b in ms:
            if a is not b:
                a.add_member(b); net.add_link(a,b,NetworkLink(name=f"{a.name}>{b.name}",latency=ConstantLatency(0.01)))
    fs=FaultSchedule()
    if crash_at is not None: fs.add(CrashNode("m0",at=crash_at))
    sim=Simulation(entities=[net,*ms],fault_schedule=fs,end_time=Instant.from_seconds(T))
    for m in ms:
        for e in m.start(): sim.schedule(e)
    worst={}
    def hook(ev):
        for m in ms:
            for o in ms:
                if m is o: continue
                st=m.get_member_state(o.name)
                if st==MemberState.DEAD: worst.setdefault((m.name,o.name),sim._current_time.to_seconds())
    sim.control.on_event(hook)
    sim.run()
    return worst, {m.name:{o.name:m.get_member_state(o.name).name for o in ms if o is not m} for m in ms}
for n in (3,5,8):
    w,_=cluster(n); print("healthy n",n,"false deaths:",len(w), list(w.items())[:3])
w,final=cluster(4,crash_at=0.0); print("crash@0: m0 seen by others:",{k:v['m0'] for k,v in final.items() if k!='m0'})
w,final=cluster(4,crash_at=10.0); print("crash@10: m0 seen by others:",{k:v['m0'] for k,v in final.items() if k!='m0'})
