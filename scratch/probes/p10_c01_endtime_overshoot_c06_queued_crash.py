from happysimulator import Simulation, Event, Instant, Entity
from happysimulator.faults.schedule import FaultSchedule
from happysimulator.faults.node_faults import CrashNode
from happysimulator.components.server.server import Server
from happysimulator.components.common import Sink
from happysimulator.distributions.constant import ConstantLatency
class A(Entity):
    def __init__(s,n): super().__init__(n); s.log=[]
    def handle_event(s,e): s.log.append((s.now.to_seconds(),e.event_type))
a=A("a")
sim=Simulation(entities=[a],end_time=Instant.from_seconds(10))
for t in [5,15,15,20]: sim.schedule(Event(time=Instant.from_seconds(t),event_type=f"e{t}",target=a))
s=sim.run(); print("a fast",a.log, s.total_events_processed)
a=A("a")
sim=Simulation(entities=[a],end_time=Instant.from_seconds(10)); sim.control
for t in [5,15,15,20]: sim.schedule(Event(time=Instant.from_seconds(t),event_type=f"e{t}",target=a))
s=sim.run(); print("a slow",a.log, s.total_events_processed)
# (c) crash of queue-fronted server
sink=Sink("sink"); srv=Server("srv",concurrency=1,service_time=ConstantLatency(1.0),downstream=sink)
fs=FaultSchedule(); fs.add(CrashNode("srv",at=2.5,restart_at=6.0))
sim=Simulation(entities=[srv,sink],fault_schedule=fs,end_time=Instant.from_seconds(20))
for t in range(0,10): sim.schedule(Event(time=Instant.from_seconds(t),event_type=f"r{t}",target=srv))
sim.run(); print("c completed",srv.stats.requests_completed,"sink",sink.events_received, "depth",srv.depth, [x.to_seconds() for x in sink.completion_times] if hasattr(sink,'completion_times') else '')
