from happysimulator import Simulation, Event, Instant, Entity
from happysimulator.components.sync.mutex import Mutex
from happysimulator.core.control.breakpoints import EventCountBreakpoint
class W(Entity):
    def __init__(s,n,m): super().__init__(n); s.m=m; s.log=[]
    def handle_event(s,e):
        yield from s.m.acquire(s.name)
        s.log.append(("got",s.now.to_seconds()))
        yield 1.0
        s.m.release()
        s.log.append(("rel",s.now.to_seconds()))
m=Mutex("m"); a=W("a",m); b=W("b",m)
sim=Simulation(entities=[m,a,b])
sim.schedule(Event(time=Instant.from_seconds(0),event_type="go",target=a))
sim.schedule(Event(time=Instant.from_seconds(0.5),event_type="go",target=b))
sim.control.add_breakpoint(EventCountBreakpoint(100000))
s=sim.run()
print(a.log,b.log,s.total_events_processed, sim._current_time)
