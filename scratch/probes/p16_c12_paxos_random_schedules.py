import random, sys, time, logging
from happysimulator import Simulation, Event, Instant, Entity
from happysimulator.components.consensus.paxos import PaxosNode
from happysimulator.components.network.network import Network
from happysimulator.components.network.link import NetworkLink
from happysimulator.distributions.latency_distribution import LatencyDistribution
from happysimulator.core.temporal import Duration
class Scripted(LatencyDistribution):
    def __init__(s,rng,choices): super().__init__(0.01); s.rng=rng; s.ch=choices
    def get_latency(s,now): return Duration.from_seconds(s.rng.choice(s.ch))
def run(seed):
    rng=random.Random(seed); random.seed(seed)
    n=rng.choice([3,5]); net=Network(name="net")
    nodes=[PaxosNode(f"n{i}",net,retry_delay=rng.choice([0.05,0.3])) for i in range(n)]
    for x in nodes: x.set_peers(nodes)
    ch=[0.001,0.01,0.05,0.2,0.5]
    for a in nodes:
        for b in nodes:
            if a is not b: net.add_link(a,b,NetworkLink(name=f"{a.name}>{b.name}",latency=Scripted(rng,ch),packet_loss_rate=rng.choice([0,0,0.1,0.3])))
    sim=Simulation(entities=[net,*nodes],end_time=Instant.from_seconds(20))
    proposed=set(); futs=[]
    def mk(node,val):
        def go(ev):
            proposed.add(val); f=node.propose(val); futs.append((val,f)); return node.start_phase1()
        return go
    for k in range(rng.randint(1,3)):
        node=rng.choice(nodes); val=f"v{k}"
        sim.schedule(Event.once(time=Instant.from_seconds(rng.choice([0,0,0.01,0.1,0.3])),event_type="client",fn=mk(node,val),daemon=False))
    viol=set(); seen={}
    def hook(ev):
        vals={x.name:x.decided_value for x in nodes if x.is_decided}
        for nm,v in vals.items():
            if nm in seen and seen[nm]!=v: viol.add("decision-changed")
            seen[nm]=v
            if v not in proposed: viol.add(f"not-proposed:{v!r}")
        if len(set(map(repr,vals.values())))>1: viol.add("disagree")
    sim.control.on_event(hook)
    sim.run()
    for val,f in futs:
        if f.is_resolved and seen and f.value not in seen.values(): viol.add("future-mismatch")
    return viol, len(seen)
t0=time.time(); tot={}; dec=0
N=int(sys.argv[1])
for s in range(N):
    v,d=run(s); dec+= d>0
    for x in v: tot.setdefault(x.split(":")[0],[]).append(s)
print("time",round(time.time()-t0,1),"decided runs",dec,{k:(len(v),v[:5]) for k,v in tot.items()})
