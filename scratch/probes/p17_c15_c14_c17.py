import random, logging
from happysimulator import Simulation, Event, Instant, Entity
from happysimulator.components.storage.lsm_tree import LSMTree
from happysimulator.components.storage.wal import WriteAheadLog, SyncEveryWrite
from happysimulator.components.storage.btree import BTree
from happysimulator.components.datastore.kv_store import KVStore
from happysimulator.core.control.breakpoints import EventCountBreakpoint
class Proc(Entity):
    def __init__(s,n,fn): super().__init__(n); s.fn=fn; s.out=None
    def handle_event(s,e): s.out = yield from s.fn(s)
# --- C15: WAL truncated past entries of the newer memtable
def build():
    wal=WriteAheadLog("wal",sync_policy=SyncEveryWrite(),write_latency=0.001,sync_latency=0.001)
    lsm=LSMTree("db",memtable_size=2,wal=wal,sstable_write_latency=1.0)
    def w1(s):
        yield from lsm.put("a",1); yield from lsm.put("b",2)   # second put triggers flush (1s)
    def w2(s):
        yield from lsm.put("c",3)                              # during flush -> goes to new memtable
        return wal.synced_up_to
    p1=Proc("p1",w1); p2=Proc("p2",w2)
    sim=Simulation(entities=[lsm,p1,p2],end_time=Instant.from_seconds(10))
    sim.schedule(Event(time=Instant.from_seconds(0),event_type="go",target=p1))
    sim.schedule(Event(time=Instant.from_seconds(0.5),event_type="go",target=p2))
    return sim,lsm,wal,p2
sim,lsm,wal,p2=build(); sim.run()
print("C15 before crash: synced_up_to",wal.synced_up_to,"wal size",wal.size,"c =",lsm.get_sync("c"))
lsm.crash(); lsm.recover_from_crash()
print("C15 after crash+recover: a,b,c =",lsm.get_sync("a"),lsm.get_sync("b"),lsm.get_sync("c"))
# --- C14: BTree get concurrent with a split
bt=BTree("bt",order=3,page_read_latency=1.0,page_write_latency=0.1) if 'order' in BTree.__init__.__code__.co_varnames else None
import inspect; print(inspect.signature(BTree.__init__))
