from happysimulator import Simulation, Event, Instant, Entity
from happysimulator.faults.schedule import FaultSchedule
from happysimulator.faults.node_faults import CrashNode
from happysimulator.faults.resource_faults import ReduceCapacity
from happysimulator.components.resource import Resource
# (a) in-flight generator during crash
class W(Entity):
    def __init__(s,n): super().__init__(n); s.log=[]
    def handle_event(s,e):
        s.log.append(("start",s.now.to_seconds()))
        yield 1.0
        s.log.append(("mid",s.now.to_seconds()))
        yield 1.0
        s.log.append(("end",s.now.to_seconds()))
w=W("w"); fs=FaultSchedule(); fs.add(CrashNode("w",at=0.5,restart_at=5.0))
sim=Simulation(entities=[w],fault_schedule=fs,end_time=Instant.from_seconds(10))
sim.schedule(Event(time=Instant.from_seconds(0),event_type="go",target=w))
sim.run(); print("a",w.log)
# (d) reduce capacity with holders
class H(Entity):
    def __init__(s,n,r): super().__init__(n); s.r=r
    def handle_event(s,e):
        g = yield s.r.acquire(8)
        yield 5.0
        g.release()
r=Resource("r",10); h=H("h",r); fs=FaultSchedule(); fs.add(ReduceCapacity("r",0.5,start=1.0,end=2.0))
sim=Simulation(entities=[r,h],fault_schedule=fs,end_time=Instant.from_seconds(20))
sim.schedule(Event(time=Instant.from_seconds(0),event_type="go",target=h))
try:
    sim.run(); print("d",r.capacity,r.available)
except Exception as ex: print("d EXC",type(ex).__name__,ex, r.capacity, r.available)
# (b) OR-set
from happysimulator.components.crdt.or_set import ORSet
A=ORSet("A"); B=ORSet("B"); A.add("x"); B.merge(A); A.remove("x"); A.merge(B); print("b", A.elements)
