import logging
logging.basicConfig(level=logging.WARNING)
from happysimulator import Simulation, Event, Instant, Entity
from happysimulator.components.messaging.message_queue import MessageQueue
class C(Entity):
    def __init__(s,n): super().__init__(n); s.got=[]
    def handle_event(s,e): s.got.append((s.now.to_seconds(), e.event_type, e.context.get("delivery_count")))
class P(Entity):
    def __init__(s,n,q): super().__init__(n); s.q=q
    def handle_event(s,e):
        mid = yield from s.q.publish(e)
        return [Event(time=s.now,event_type="poll",target=s.q)]
q=MessageQueue("q"); c=C("c"); p=P("p",q); q.subscribe(c)
sim=Simulation(entities=[q,c,p], end_time=Instant.from_seconds(10))
sim.schedule(Event(time=Instant.from_seconds(1),event_type="m1",target=p))
sim.run()
print(c.got, q.stats.messages_delivered, q.in_flight_count)
