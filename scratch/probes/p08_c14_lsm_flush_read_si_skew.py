from happysimulator import Simulation, Event, Instant, Entity
from happysimulator.components.storage.lsm_tree import LSMTree
from happysimulator.components.storage.wal import WriteAheadLog
from happysimulator.components.storage.transaction_manager import TransactionManager, IsolationLevel
from happysimulator.components.datastore.kv_store import KVStore
class Proc(Entity):
    def __init__(s,n,fn): super().__init__(n); s.fn=fn; s.out=None
    def handle_event(s,e):
        s.out = yield from s.fn(s)
# (e) LSM: write k1,k2 -> memtable_size=2 triggers flush (write latency), concurrent read of k1 during flush
lsm=LSMTree("db",memtable_size=2,sstable_write_latency=1.0)
def writer(s):
    yield from lsm.put("k1","v1")
    yield from lsm.put("k2","v2")
    return "done"
def reader(s):
    v = yield from lsm.get("k1")
    return (s.now.to_seconds(), v)
w=Proc("w",writer); r=Proc("r",reader)
sim=Simulation(entities=[lsm,w,r],end_time=Instant.from_seconds(10))
sim.schedule(Event(time=Instant.from_seconds(0),event_type="go",target=w))
sim.schedule(Event(time=Instant.from_seconds(0.5),event_type="go",target=r))
sim.run(); print("e", r.out, lsm.get_sync("k1"))
# (c) SI read skew
kv=KVStore("kv"); kv.put_sync("x",0); kv.put_sync("y",0)
tm=TransactionManager("tm",store=kv,isolation=IsolationLevel.SNAPSHOT_ISOLATION)
def t1(s):
    tx = yield from tm.begin()
    x = yield from tx.read("x")
    yield 1.0
    y = yield from tx.read("y")
    ok = yield from tx.commit()
    return (x,y,ok)
def t2(s):
    tx = yield from tm.begin()
    yield from tx.write("x",1); yield from tx.write("y",1)
    ok = yield from tx.commit()
    return ok
p1=Proc("p1",t1); p2=Proc("p2",t2)
sim=Simulation(entities=[kv,tm,p1,p2],end_time=Instant.from_seconds(10))
sim.schedule(Event(time=Instant.from_seconds(0),event_type="go",target=p1))
sim.schedule(Event(time=Instant.from_seconds(0.5),event_type="go",target=p2))
sim.run(); print("c", p1.out, p2.out)
