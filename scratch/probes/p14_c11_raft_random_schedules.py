import random, sys, time
from happysimulator import Simulation, Event, Instant, Entity
import happysimulator.components.consensus.raft as raft_mod
from happysimulator.components.consensus.raft import RaftNode, RaftState
from happysimulator.components.network.network import Network
from happysimulator.components.network.link import NetworkLink
from happysimulator.distributions.latency_distribution import LatencyDistribution
from happysimulator.core.temporal import Duration
class Scripted(LatencyDistribution):
    def __init__(s,rng,choices): super().__init__(0.01); s.rng=rng; s.ch=choices
    def get_latency(s,now): return Duration.from_seconds(s.rng.choice(s.ch))
class RecSM:
    def __init__(s): s.applied=[]
    def apply(s,c): s.applied.append(c); return c
    def snapshot(s): return list(s.applied)
    def restore(s,x): s.applied=list(x)
def run(seed, n=3, T=30):
    rng=random.Random(seed)
    random.seed(seed)
    net=Network(name="net")
    sms=[RecSM() for _ in range(n)]
    nodes=[RaftNode(f"n{i}",net,state_machine=sms[i],election_timeout_min=0.5,election_timeout_max=1.0,heartbeat_interval=0.2) for i in range(n)]
    for x in nodes: x.set_peers(nodes)
    choices=[0.005,0.02,0.1,0.3,0.6,1.2]
    for a in nodes:
        for b in nodes:
            if a is not b: net.add_link(a,b,NetworkLink(name=f"{a.name}>{b.name}",latency=Scripted(rng,choices)))
    sim=Simulation(entities=[net,*nodes],end_time=Instant.from_seconds(T))
    for x in nodes:
        for e in x.start(): sim.schedule(e)
    # client submits to whoever is leader at time t (via callback events)
    cmd=[0]
    def submit(ev):
        for x in nodes:
            if x.is_leader:
                cmd[0]+=1; x.submit({"op":"set","key":"k","value":cmd[0]})
    for k in range(1,40): sim.schedule(Event.once(time=Instant.from_seconds(k*0.7),event_type="client",fn=submit,daemon=True))
    # partitions
    for k in range(rng.randint(0,3)):
        t0=rng.uniform(1,T-5); d=rng.uniform(0.5,4); iso=rng.choice(nodes)
        others=[x for x in nodes if x is not iso]
        h={}
        sim.schedule(Event.once(time=Instant.from_seconds(t0),event_type="part",fn=lambda e,iso=iso,others=others,h=h: h.__setitem__('p',net.partition([iso],others)),daemon=True))
        sim.schedule(Event.once(time=Instant.from_seconds(t0+d),event_type="heal",fn=lambda e,h=h: h['p'].heal() if 'p' in h else None,daemon=True))
    leaders={}; viol=[]
    committed={}
    def hook(ev):
        for x in nodes:
            if x.state==RaftState.LEADER:
                s=leaders.setdefault(x.current_term,set()); s.add(x.name)
                if len(s)>1 and ("two-leaders",x.current_term) not in viol: viol.append(("two-leaders",x.current_term))
            ci=x.log.commit_index
            for i in range(1,ci+1):
                e=x.log.get(i)
                if e is None: continue
                prev=committed.setdefault(i,(e.term,repr(e.command)))
                if prev!=(e.term,repr(e.command)) and ("commit-diverge",i) not in viol: viol.append(("commit-diverge",i))
        # applied prefix agreement
        for i,a in enumerate(sms):
            for b in sms[i+1:]:
                m=min(len(a.applied),len(b.applied))
                if a.applied[:m]!=b.applied[:m] and "apply-diverge" not in viol: viol.append("apply-diverge")
    sim.control.on_event(hook)
    sim.run()
    return viol, len(leaders), max(len(s.applied) for s in sms)
t0=time.time(); found={}
N=int(sys.argv[1]) if len(sys.argv)>1 else 300
for seed in range(N):
    v,nl,na=run(seed, n=random.Random(seed).choice([3,5]))
    for x in v:
        k=x if isinstance(x,str) else x[0]
        found.setdefault(k,[]).append(seed)
print("time",round(time.time()-t0,1),{k:(len(v),v[:5]) for k,v in found.items()})
