from happysimulator import Simulation, Event, Instant, Entity
log=[]
class A(Entity):
    def handle_event(self, e):
        log.append((self.now.nanoseconds, e.event_type))
        if e.event_type=="first":
            return [Event(time=Instant.from_seconds(2), event_type="run-created", target=self)]
a=A("a")
sim=Simulation(entities=[a])
sim.schedule(Event(time=Instant.from_seconds(1), event_type="first", target=a))
sim.schedule(Event(time=Instant.from_seconds(1), event_type="pad1", target=a))
sim.schedule(Event(time=Instant.from_seconds(1), event_type="pad2", target=a))
sim.schedule(Event(time=Instant.from_seconds(2), event_type="pre-run", target=a))
sim.run()
print(log)
