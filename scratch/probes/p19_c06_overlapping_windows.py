import random, logging
from happysimulator import Simulation, Event, Instant, Entity
from happysimulator.components.network.network import Network
from happysimulator.components.network.link import NetworkLink
from happysimulator.distributions.constant import ConstantLatency
from happysimulator.faults.schedule import FaultSchedule
from happysimulator.faults.network_faults import NetworkPartition, InjectLatency, InjectPacketLoss
class Node(Entity):
    def __init__(s,n): super().__init__(n); s.got=[]
    def handle_event(s,e): s.got.append((e.context["metadata"]["sent"], s.now.to_seconds()))
class Prober(Entity):
    def __init__(s,net,a,b): super().__init__("prober"); s.net=net; s.a=a; s.b=b
    def handle_event(s,e):
        ev=s.net.send(s.a,s.b,"probe",payload={"sent":s.now.to_seconds()})
        return [ev]
def run(faults):
    random.seed(0)
    net=Network(name="net"); a=Node("a"); b=Node("b")
    net.add_link(a,b,NetworkLink(name="ab",latency=ConstantLatency(0.25)))
    pr=Prober(net,a,b); fs=FaultSchedule()
    for f in faults: fs.add(f)
    sim=Simulation(entities=[net,a,b,pr],fault_schedule=fs,end_time=Instant.from_seconds(60))
    for t in range(0,50): sim.schedule(Event(time=Instant.from_seconds(t+0.5),event_type="tick",target=pr))
    sim.run()
    return {sent:round(recv-sent,3) for sent,recv in b.got}
base=run([])
p=run([NetworkPartition(["a"],["b"],start=10,end=30),NetworkPartition(["a"],["b"],start=20,end=25)])
print("partition [10,30]+[20,25]: probes delivered while first window still active:",[t for t in p if 10<t<30])
l=run([InjectLatency("a","b",extra_ms=1000,start=10,end=30),InjectLatency("a","b",extra_ms=500,start=20,end=25)])
print("latency [10,30]+[20,25]: delays at 12.5,22.5,27.5,35.5:",l.get(12.5),l.get(22.5),l.get(27.5),l.get(35.5))
l=run([InjectLatency("a","b",extra_ms=1000,start=10,end=30),InjectLatency("a","b",extra_ms=500,start=20,end=40)])
print("latency [10,30]+[20,40]: delays at 12.5,22.5,35.5,45.5:",l.get(12.5),l.get(22.5),l.get(35.5),l.get(45.5))
x=run([InjectPacketLoss("a","b",loss_rate=1.0,start=10,end=30),InjectPacketLoss("a","b",loss_rate=1.0,start=20,end=25)])
print("loss [10,30]+[20,25]: delivered in (25,30):",[t for t in x if 25<t<30])
