from happysimulator import Simulation, Event, Instant, Entity
from happysimulator.components.storage.btree import BTree
class Proc(Entity):
    def __init__(s,n,fn): super().__init__(n); s.fn=fn; s.out=None
    def handle_event(s,e): s.out = yield from s.fn(s)
import itertools
found=None
for order in (3,4):
  for nkeys in range(2,8):
    for qk in range(nkeys):
        bt=BTree("bt",order=order,page_read_latency=1.0,page_write_latency=0.1)
        keys=[f"k{i}" for i in range(nkeys)]
        for k in keys: bt.put_sync(k,k.upper())
        def rd(s): 
            v=yield from bt.get(keys[qk]); return v
        def wr(s):
            yield from bt.put("k9","K9"); yield from bt.put("k8","K8")
        r=Proc("r",rd); w=Proc("w",wr)
        sim=Simulation(entities=[bt,r,w],end_time=Instant.from_seconds(50))
        sim.schedule(Event(time=Instant.from_seconds(0.0),event_type="go",target=w))
        sim.schedule(Event(time=Instant.from_seconds(0.5),event_type="go",target=r))
        sim.run()
        if r.out!=keys[qk].upper() and not found: found=(order,nkeys,qk,r.out, bt.get_sync(keys[qk]))
print("btree stale read under concurrent split:",found)
