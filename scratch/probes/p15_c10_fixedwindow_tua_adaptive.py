import copy
from happysimulator.core.temporal import Instant, Duration
from happysimulator.components.rate_limiter.policy import FixedWindowPolicy, AdaptivePolicy
p=FixedWindowPolicy(2,0.1)
t=250_000_000
print(p.try_acquire(Instant(t)),p.try_acquire(Instant(t)),p.try_acquire(Instant(t)))
for step in range(6):
    w=p.time_until_available(Instant(t)); print("t",t,"tua",w.nanoseconds, "ws",p._current_window_start.nanoseconds,"cnt",p._current_window_count)
    if w==Duration.ZERO: print("acquire:",p.try_acquire(Instant(t))); break
    t+=w.nanoseconds
# adaptive
p=AdaptivePolicy(initial_rate=2.0,min_rate=1.0,max_rate=50.0,window_size=1.0)
t=0
print([p.try_acquire(Instant(0)) for _ in range(3)], p.tokens)
for step in range(8):
    w=p.time_until_available(Instant(t)); print("t",t,"tua",w.nanoseconds,"tokens",p.tokens)
    if w==Duration.ZERO: print("acq",p.try_acquire(Instant(t))); break
    t+=w.nanoseconds
