import random, sys, time
from happysimulator import Simulation, Event, Instant, Entity
from happysimulator.components.consensus.multi_paxos import MultiPaxosNode
from happysimulator.components.consensus.flexible_paxos import FlexiblePaxosNode
from happysimulator.components.network.network import Network
from happysimulator.components.network.link import NetworkLink
from happysimulator.distributions.latency_distribution import LatencyDistribution
from happysimulator.core.temporal import Duration
class Scripted(LatencyDistribution):
    def __init__(s,rng,choices): super().__init__(0.01); s.rng=rng; s.ch=choices
    def get_latency(s,now): return Duration.from_seconds(s.rng.choice(s.ch))
class RecSM:
    def __init__(s): s.applied=[]
    def apply(s,c): s.applied.append(c); return c
    def snapshot(s): return list(s.applied)
    def restore(s,x): s.applied=list(x)
def run(seed, cls, faulty):
    rng=random.Random(seed); random.seed(seed)
    n=rng.choice([3,5]); net=Network(name="net"); sms=[RecSM() for _ in range(n)]
    nodes=[cls(f"n{i}",net,state_machine=sms[i]) for i in range(n)]
    for x in nodes: x.set_peers(nodes)
    ch=[0.001,0.01,0.05,0.2,0.5] if faulty else [0.001,0.002,0.005]
    for a in nodes:
        for b in nodes:
            if a is not b: net.add_link(a,b,NetworkLink(name=f"{a.name}>{b.name}",latency=Scripted(rng,ch),packet_loss_rate=rng.choice([0,0,0.1]) if faulty else 0))
    sim=Simulation(entities=[net,*nodes],end_time=Instant.from_seconds(20))
    starters=[nodes[0]] if not faulty else rng.sample(nodes, rng.randint(1,2))
    for i,x in enumerate(starters):
        sim.schedule(Event.once(time=Instant.from_seconds(0.01*i + (rng.choice([0,0.3,1.0]) if i else 0)),event_type="start",fn=lambda e,x=x: x.start(),daemon=True))
    cmds=[]
    def submit(ev,k=[0]):
        ls=[x for x in nodes if x.is_leader]
        if ls:
            k[0]+=1; c=f"c{k[0]}"; cmds.append(c); rng.choice(ls).submit(c)
    for k in range(1,12): sim.schedule(Event.once(time=Instant.from_seconds(0.2+k*0.3),event_type="client",fn=submit,daemon=False))
    viol=set(); committed={}
    def hook(ev):
        for x in nodes:
            for i in range(1,x.log.commit_index+1):
                e=x.log.get(i)
                if e is None: viol.add("commit-beyond-log"); continue
                prev=committed.setdefault(i,repr(e.command))
                if prev!=repr(e.command): viol.add("slot-disagree")
        for i,a in enumerate(sms):
            for b in sms[i+1:]:
                m=min(len(a.applied),len(b.applied))
                if a.applied[:m]!=b.applied[:m]: viol.add("apply-diverge")
    sim.control.on_event(hook); sim.run()
    if not faulty:
        if any(s.applied!=cmds for s in sms): viol.add(f"liveness:{[len(s.applied) for s in sms]}/{len(cmds)}")
    return viol
for cls in (MultiPaxosNode, FlexiblePaxosNode):
    for faulty in (False, True):
        tot={}
        for s in range(int(sys.argv[1])):
            try:
                for v in run(s,cls,faulty): tot.setdefault(v.split(":")[0],[]).append(s)
            except Exception as e: tot.setdefault("EXC "+type(e).__name__+":"+str(e)[:50],[]).append(s)
        print(cls.__name__,"faulty" if faulty else "fault-free",{k:(len(v),v[:3]) for k,v in tot.items()})
