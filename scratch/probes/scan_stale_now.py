import ast, sys, pathlib
root=pathlib.Path('/repo/happysimulator')
for p in sorted(root.rglob('*.py')):
    try: tree=ast.parse(p.read_text())
    except Exception as e: continue
    for fn in ast.walk(tree):
        if not isinstance(fn,(ast.FunctionDef,)): continue
        yields=[n.lineno for n in ast.walk(fn) if isinstance(n,(ast.Yield,ast.YieldFrom))]
        if not yields: continue
        # names assigned from something containing 'now' or '.time'
        assigns={}
        for n in ast.walk(fn):
            if isinstance(n,ast.Assign) and len(n.targets)==1 and isinstance(n.targets[0],ast.Name):
                src=ast.unparse(n.value)
                if 'now' in src or src.endswith('.time') :
                    assigns.setdefault(n.targets[0].id,[]).append(n.lineno)
        for n in ast.walk(fn):
            if isinstance(n,ast.Call) and ast.unparse(n.func).endswith('Event'):
                for kw in n.keywords:
                    if kw.arg=='time' and isinstance(kw.value,ast.Name) and kw.value.id in assigns:
                        a=min(assigns[kw.value.id])
                        if any(a < y < n.lineno for y in yields):
                            print(f"{p.relative_to(root)}:{n.lineno} {fn.name} time={kw.value.id} (assigned L{a}, yield between)")
