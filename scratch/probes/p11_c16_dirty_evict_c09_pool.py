import logging, warnings
from happysimulator import Simulation, Event, Instant, Entity
from happysimulator.components.datastore.kv_store import KVStore
from happysimulator.components.datastore.cached_store import CachedStore
from happysimulator.components.datastore.eviction_policies import LRUEviction
from happysimulator.components.client.connection_pool import ConnectionPool
from happysimulator.distributions.constant import ConstantLatency
class Proc(Entity):
    def __init__(s,n,fn): super().__init__(n); s.fn=fn; s.out=None
    def handle_event(s,e):
        s.out = yield from s.fn(s)
def run(ents, procs, end=50):
    sim=Simulation(entities=ents+[p for p,_ in procs],end_time=Instant.from_seconds(end))
    for p,t in procs: sim.schedule(Event(time=Instant.from_seconds(t),event_type="go",target=p))
    sim.run(); return sim
# dirty eviction (write-back, capacity 1)
kv=KVStore("kv"); cs=CachedStore("cs",kv,cache_capacity=1,eviction_policy=LRUEviction(),write_through=False)
def wb(s):
    yield from cs.put("a",1); yield from cs.put("b",2); n=yield from cs.flush(); return n
p=Proc("p",wb); run([kv,cs],[(p,0)]); print("dirty-evict: backing a =",kv.get_sync("a"),"b =",kv.get_sync("b"))
# fill race (write-through)
kv=KVStore("kv",read_latency=1.0,write_latency=0.1); kv.put_sync("k","old")
cs=CachedStore("cs",kv,cache_capacity=4,eviction_policy=LRUEviction(),write_through=True)
def rd(s): v=yield from cs.get("k"); return (s.now.to_seconds(),v)
def wr(s): yield from cs.put("k","new"); return s.now.to_seconds()
r1=Proc("r1",rd); w=Proc("w",wr); r2=Proc("r2",rd)
run([kv,cs],[(r1,0),(w,0.5),(r2,5)]); print("fill-race:",r1.out,w.out,r2.out, "backing",kv.get_sync("k"))
# connection pool over max
class T(Entity):
    def handle_event(s,e): pass
t=T("t"); pool=ConnectionPool("pool",t,max_connections=1,connection_latency=ConstantLatency(1.0))
peak=[0]
def user(s):
    c=yield from pool.acquire(); peak[0]=max(peak[0],pool.active_connections); yield 2.0; pool.release(c); return c.id
u1=Proc("u1",user); u2=Proc("u2",user)
run([t,pool],[(u1,0),(u2,0.5)]); print("pool: peak active",peak[0],"total",pool.total_connections,"ids",u1.out,u2.out)
