from happysimulator import Simulation, Event, Instant, Entity
from happysimulator.components.queued_resource import QueuedResource
from happysimulator.components.queue_policy import FIFOQueue
class S(QueuedResource):
    def __init__(s,n,c): super().__init__(n,policy=FIFOQueue()); s.c=c; s.inflight=0; s.log=[]; s.maxin=0
    def has_capacity(s): return s.inflight<s.c
    def handle_queued_event(s,e):
        s.inflight+=1; s.maxin=max(s.maxin,s.inflight)
        s.log.append(("start",e.event_type,s.now.to_seconds()))
        yield 1.0
        s.inflight-=1
        s.log.append(("end",e.event_type,s.now.to_seconds()))
s=S("s",2)
sim=Simulation(entities=[s])
for i in range(3):
    sim.schedule(Event(time=Instant.from_seconds(0),event_type=f"r{i}",target=s))
sim.run(); print(s.log, s.maxin)
# over-poll: c=1; r0 at 0 (ends 1.0); r1,r2 arrive at 1.0
s=S("s",1)
sim=Simulation(entities=[s])
sim.schedule(Event(time=Instant.from_seconds(0),event_type="r0",target=s))
sim.schedule(Event(time=Instant.from_seconds(1),event_type="r1",target=s))
sim.schedule(Event(time=Instant.from_seconds(1),event_type="r2",target=s))
sim.run(); print(s.log, s.maxin)
