import logging, warnings
warnings.simplefilter("ignore")
logging.basicConfig(level=logging.WARNING)
from happysimulator import Simulation, Event, Instant, Entity
from happysimulator.parallel.link import PartitionLink
from happysimulator.parallel.partition import SimulationPartition
from happysimulator.parallel.simulation import ParallelSimulation

class Rec(Entity):
    def __init__(s,n): super().__init__(n); s.log=[]
    def handle_event(s,e): s.log.append((s.now.nanoseconds,e.event_type))
class Fwd(Entity):
    def __init__(s,n,peer): super().__init__(n); s.peer=peer; s.log=[]
    def handle_event(s,e):
        s.log.append((s.now.nanoseconds,e.event_type))
        return [Event(time=s.now+0.1, event_type="X", target=s.peer)]
def build():
    q=Rec("q"); p=Fwd("p",q); return p,q
p,q=build()
ps=ParallelSimulation([SimulationPartition("P",entities=[p]),SimulationPartition("Q",entities=[q])],
    links=[PartitionLink("P","Q",min_latency=0.1)], end_time=Instant.from_seconds(3))
ps.schedule(Event(time=Instant.from_seconds(0.05),event_type="go",target=p),partition="P")
ps.schedule(Event(time=Instant.from_seconds(0.0),event_type="l0",target=q),partition="Q")
ps.schedule(Event(time=Instant.from_seconds(1.0),event_type="l1",target=q),partition="Q")
ps.run()
print("par",p.log,q.log)
p,q=build()
s=Simulation(entities=[p,q],end_time=Instant.from_seconds(3))
s.schedule(Event(time=Instant.from_seconds(0.05),event_type="go",target=p))
s.schedule(Event(time=Instant.from_seconds(0.0),event_type="l0",target=q))
s.schedule(Event(time=Instant.from_seconds(1.0),event_type="l1",target=q))
s.run()
print("seq",p.log,q.log)
