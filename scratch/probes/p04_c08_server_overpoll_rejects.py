import random, itertools
from happysimulator import Simulation, Event, Instant, Entity
from happysimulator.components.server.server import Server
from happysimulator.components.common import Sink
from happysimulator.distributions.constant import ConstantLatency
class Relay(Entity):
    def __init__(s,n,t): super().__init__(n); s.t=t
    def handle_event(s,e): return [Event(time=s.now,event_type=e.event_type,target=s.t,context=e.context)]
def run(seed):
    r=random.Random(seed)
    sink=Sink("sink")
    conc=r.choice([1,2,3])
    srv=Server("srv",concurrency=conc,service_time=ConstantLatency(r.choice([1.0,2.0])),downstream=sink)
    relay=Relay("relay",srv)
    sim=Simulation(entities=[srv,sink,relay])
    n=r.randint(2,8)
    for i in range(n):
        t=r.randint(0,4)
        tgt=r.choice([srv,relay])
        sim.schedule(Event(time=Instant.from_seconds(t),event_type=f"r{i}",target=tgt))
    sim.run()
    st=srv.stats
    return n,conc,st.requests_completed,st.requests_rejected,srv.depth,sink.events_received, sim._current_time.to_seconds()
bad=0
for s in range(3000):
    n,conc,c,rej,d,sk,t=run(s)
    if rej or d or c!=n:
        bad+=1
        if bad<6: print(s,n,conc,c,rej,d,sk,t)
print("bad",bad)
