"""Replay a C03 case (printed by c03one.py as JSON) with custom orders/hash seeds: argv: casefile, 'order' list json, hashseed"""
import sys, json, subprocess, os
case=json.load(open(sys.argv[1])); order=json.loads(sys.argv[2]); hs=sys.argv[3]
job={"runs":[{"slot":i,"tag":"x","case":case["batch"][i]} for i in order]}
env=dict(os.environ,PYTHONHASHSEED=hs)
r=subprocess.run(['/venv/bin/python','-m','vfw.c03_worker'],input=json.dumps(job),capture_output=True,text=True,env=env,cwd='/verif')
if r.returncode: print(r.stderr[-2000:]); sys.exit(1)
for l in r.stdout.splitlines():
    d=json.loads(l); print(d['slot'],d['family'],d['n'],d['ddig'][:12],d['sdig'][:12],d['outcome'])
