import sys, json
from vfw import scenarios
case=json.loads(sys.argv[1]); limit=int(sys.argv[2]) if len(sys.argv)>2 else 3
sc=scenarios.build(case); sim=sc.sim; sim.control
heap=sim._event_heap; orig=heap.push
n=[0]
def push(evs):
    if sim._is_running:
        now=sim._clock.now.nanoseconds
        for e in (evs if isinstance(evs,list) else [evs]):
            if e.time.nanoseconds<now and n[0]<limit:
                n[0]+=1
                le=sim._last_event
                print('PAST', e.event_type, 'for', getattr(e.target,'name',None), 't=',e.time.nanoseconds, 'now=',now, '| last:', le.event_type, type(le).__name__, le.target.name, le.time.nanoseconds)
                print('   ctx', {k:str(v)[:80] for k,v in e.context.items()})
    return orig(evs)
heap.push=push
sim.run()
