"""Mutant runner for C07/C03 on a *patched* scratch worktree (clean baseline): any signature = kill."""
import json, os, subprocess, sys, time
prop=sys.argv[1]; WT=sys.argv[2]; seeds=sys.argv[3].split(','); scale=sys.argv[4] if len(sys.argv)>4 else '0.5'
ids=set(sys.argv[5].split(',')) if len(sys.argv)>5 else None
muts=json.load(open(f'/verif/sensitivity/mutants_{prop}.json'))
base=subprocess.run(['git','-C',WT,'diff'],capture_output=True,text=True).stdout
out={}
for m in muts:
    if ids and m['id'] not in ids: continue
    path=os.path.join(WT,m['file']); src=open(path).read()
    if m['old'] not in src: print(m['id'],'pattern not found'); out[m['id']]={'error':'pattern'}; continue
    open(path,'w').write(src.replace(m['old'],m['new'],1))
    res={}
    try:
        for s in seeds:
            t0=time.time()
            r=subprocess.run(['/verif/check',prop,'--tier','quick','--seed',s,'--scale',scale,'--jobs','6'],capture_output=True,text=True,
                             env=dict(os.environ,VERIF_REPO=WT,VFW_NO_EVIDENCE='1'),cwd='/verif')
            sigs=[l.strip()[10:].split(': ')[0] for l in r.stdout.splitlines() if l.strip().startswith('violated:')]
            res[s]={'exit':r.returncode,'wall_s':round(time.time()-t0,1),'signatures':sigs[:6]}
            print(m['id'],'seed',s,'exit',r.returncode,res[s]['wall_s'],'s',sigs[:3], flush=True)
            if r.returncode==2: print(r.stderr[-800:])
    finally:
        open(path,'w').write(src)
    out[m['id']]={'note':m['note'],'killed':all(v['exit']==1 for v in res.values()),'runs':res}
tag=os.environ.get('MUT_TAG','')
json.dump(out,open(f'/verif/scratch/reports/mutants_{prop}_result{tag}.json','w'),indent=1)
for root,_,files in os.walk(f'/verif/replays/{prop}'):
    for f in files:
        if f.startswith('new-'): os.remove(os.path.join(root,f))
