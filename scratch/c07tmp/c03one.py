import sys, json, time, random
from vfw.props import c03
from vfw import scenarios
rnd=random.Random(int(sys.argv[1]) if len(sys.argv)>1 else 1)
fams=sys.argv[2].split(',') if len(sys.argv)>2 else rnd.sample(sorted(scenarios.SCENARIOS),8)
case={"batch":[{"family":f,"seed":rnd.randrange(2**31),"k":[rnd.randrange(64) for _ in range(8)]} for f in fams],"hs":[rnd.randrange(1,2**32),rnd.randrange(1,2**32)],"perm":rnd.randrange(10**6)}
json.dump(case,open("/tmp/c03case.json","w")); t=time.time(); r=c03.execute(case); print(round(time.time()-t,2),'s', r.nontrivial, r.observed, [l for l in r.labels if l.startswith('differs')])
for v in r.violations: print(v.sig,'\n   ',v.detail[:700])
