import inspect, importlib, pkgutil, sys
import happysimulator.components as pk
from happysimulator.core.entity import Entity
pref = sys.argv[1] if len(sys.argv)>1 else ''
for m in pkgutil.walk_packages(pk.__path__, 'happysimulator.components.'):
    if pref and not m.name.startswith('happysimulator.components.'+pref): continue
    mod=importlib.import_module(m.name)
    for n,o in vars(mod).items():
        if inspect.isclass(o) and o.__module__==m.name and not n.startswith('_'):
            isE = issubclass(o,Entity)
            try: sig=str(inspect.signature(o.__init__))
            except Exception as e: sig='?'
            print(f"## {m.name.replace('happysimulator.components.','')}.{n}{' [Entity]' if isE else ''} {sig}")
            if isE:
                meths=[k for k,v in vars(o).items() if inspect.isfunction(v) and not k.startswith('_')]
                gens=[k for k in meths if inspect.isgeneratorfunction(vars(o)[k])]
                props=[k for k,v in vars(o).items() if isinstance(v,property)]
                print('   methods:', [k+('*' if k in gens else '') for k in meths])
                print('   props:', props)
