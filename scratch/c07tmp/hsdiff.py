import sys, json, subprocess, os
case=sys.argv[1]; seeds=sys.argv[2].split(',')
outs=[]
for hs in seeds:
    env=dict(os.environ,PYTHONHASHSEED=hs,PYTHONPATH=os.environ.get('PYTHONPATH','/repo:/verif'))
    job={"runs":[{"slot":0,"tag":"x","case":json.loads(case)}]}
    r=subprocess.run(['/venv/bin/python','-m','vfw.c03_worker'],input=json.dumps(job),capture_output=True,text=True,env=env,cwd='/verif')
    if r.returncode: print(r.stderr[-2000:]); sys.exit(1)
    outs.append(json.loads(r.stdout.splitlines()[0]))
a,b=outs[0],outs[1]
print('n',a['n'],b['n'],'ddig equal',a['ddig']==b['ddig'],'sdig equal',a['sdig']==b['sdig'])
for i,(x,y) in enumerate(zip(a['dhead'],b['dhead'])):
    if x!=y:
        for j in range(max(0,i-4),min(len(a['dhead']),i+5)): print(j, a['dhead'][j], '   |   ', b['dhead'][j] if j<len(b['dhead']) else None)
        break
if a['sdig']!=b['sdig']:
    from vfw.props.c03 import stats_diff
    print(stats_diff(a['stats'],b['stats']))
