import sys, random, time, traceback, json, signal
class TO(BaseException): pass
def _al(*a): raise TO()
signal.signal(signal.SIGALRM,_al)
sys.path[:0]=['/verif']
from vfw import scenarios
from vfw.props import c07
fams = sys.argv[1].split(',') if len(sys.argv)>1 and sys.argv[1]!='all' else sorted(scenarios.SCENARIOS)
n = int(sys.argv[2]) if len(sys.argv)>2 else 10
from vfw import runner
obl = c07.OBLIGATIONS[0]
def ex(case):
    r = runner.safe_execute('C07', obl, case, None)
    if r.observed is None: r.observed={'deliveries':0,'outcome':'exception','classes':[],'handled':[]}
    return r
rnd = random.Random(int(sys.argv[3]) if len(sys.argv)>3 else 1)
for f in fams:
    sigs = {}; dl=[]; nt=0; t0=time.time(); classes=set(); handled=set(); outc={}
    for i in range(n):
        case={"family":f,"seed":rnd.randrange(2**31),"k":[rnd.randrange(64) for _ in range(8)]}
        try:
            signal.setitimer(signal.ITIMER_REAL, 10)
            r=ex(case)
            signal.setitimer(signal.ITIMER_REAL, 0)
        except (Exception, TO) as e:
            signal.setitimer(signal.ITIMER_REAL, 0)
            print(f"!! {f} EXC {type(e).__name__}: {e} case={json.dumps(case)}"); traceback.print_exc(limit=-6); break
        dl.append(r.observed["deliveries"]); nt+=r.nontrivial
        classes|=set(r.observed["classes"]); handled|=set(r.observed["handled"])
        outc[r.observed["outcome"]]=outc.get(r.observed["outcome"],0)+1
        for v in r.violations:
            sigs.setdefault(v.sig,(0,v.detail,case)); sigs[v.sig]=(sigs[v.sig][0]+1,)+sigs[v.sig][1:]
    print(f"{f:28s} n={len(dl)} deliv[min/med/max]={min(dl or [0])}/{sorted(dl or [0])[len(dl)//2]}/{max(dl or [0])} nt={nt} {outc} {time.time()-t0:.2f}s classes={sorted(classes)} nothandled={sorted(classes-handled)}")
    for s,(c,d,case) in sigs.items(): print(f"     {c}x {s}\n        {d[:300]}\n        {json.dumps(case)}")
