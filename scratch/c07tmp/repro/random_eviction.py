from happysimulator.components.datastore.eviction_policies import RandomEviction
p = RandomEviction(seed=1)
for k in ["user:1", "user:2", "user:3", "user:4", "user:5", "user:6"]: p.on_insert(k)
print([p.evict() for _ in range(3)])
