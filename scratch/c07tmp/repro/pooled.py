from happysimulator import Entity, Event, Instant, Simulation
from happysimulator.components.client.connection_pool import ConnectionPool
from happysimulator.components.client.pooled_client import PooledClient
from happysimulator.components.client.retry import FixedRetry
class Slow(Entity):
    def handle_event(self, e): yield 10.0                      # never answers in time
pool = ConnectionPool("pool", Slow("be"), max_connections=1, idle_timeout=0.1)
pc = PooledClient("pc", pool, timeout=0.05, retry_policy=FixedRetry(max_attempts=2, delay=0.5))   # retry delay > idle timeout
sim = Simulation(entities=[pc, pool, pool.target], end_time=Instant.from_seconds(30))
sim.schedule(pc.send_request()); sim.run()
print(pool.idle_connections, pool.stats.connections_closed)    # idle connection is never reaped: its check was stamped in the past
