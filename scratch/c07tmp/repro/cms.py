from happysimulator.sketching import CountMinSketch
s = CountMinSketch(width=4, depth=2, seed=7)
for x in [f"user-{i}" for i in range(8)] + ["user-0"]: s.add(x)
print([s.estimate(f"user-{i}") for i in range(10)])
