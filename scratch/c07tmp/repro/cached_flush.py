from happysimulator import Entity, Event, Instant, Simulation
from happysimulator.components.datastore import CachedStore, KVStore, LRUEviction
kv = KVStore("db", write_latency=0.01); order = []
orig = kv.put
def put(k, v): order.append(k); return (yield from orig(k, v))
kv.put = put
cs = CachedStore("cache", kv, cache_capacity=8, eviction_policy=LRUEviction(), write_through=False)
class W(Entity):
    def handle_event(self, e):
        for k in ["key-a", "key-b", "key-c", "key-d"]: yield from cs.put(k, 1)
        yield from cs.flush()
w = W("w"); sim = Simulation(entities=[kv, cs, w], end_time=Instant.from_seconds(5))
sim.schedule(Event(time=Instant.Epoch, event_type="go", target=w)); sim.run(); print(order)
