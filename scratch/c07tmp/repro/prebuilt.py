from happysimulator import Entity, Event, Instant, Simulation
def build_and_run():
    log = []
    class Rec(Entity):
        def handle_event(self, e): log.append(e.event_type)
    rec = Rec("rec")
    a = Event(time=Instant.from_seconds(1), event_type="A", target=rec)      # built before the Simulation ...
    sim = Simulation(entities=[rec], end_time=Instant.from_seconds(5))
    x = Event(time=Instant.from_seconds(2), event_type="X", target=rec)      # ... some other initial event ...
    b = Event(time=Instant.from_seconds(1), event_type="B", target=rec)      # ... and one that ties with A
    for e in (a, x, b): sim.schedule(e)
    sim.run(); return log
print(build_and_run(), build_and_run())      # same model twice in one process
