from happysimulator import Entity, Event, Instant, Simulation
from happysimulator.components.microservice import OutboxRelay
class Bus(Entity):
    got = 0
    def handle_event(self, e): Bus.got += 1
bus = Bus("bus"); ob = OutboxRelay("outbox", bus)            # defaults: poll 0.1 s, relay_latency 1 ms
sim = Simulation(entities=[ob, bus], end_time=Instant.from_seconds(5))
ob.write({"order": 1}); ob.write({"order": 2})
sim.schedule(ob.prime_poll())
sim.run()
print(ob.stats.entries_relayed, Bus.got)                      # 2 0 : both entries "relayed", none delivered
