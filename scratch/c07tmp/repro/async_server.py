from happysimulator import Entity, Event, Instant, Simulation
from happysimulator.components.server.async_server import AsyncServer
from happysimulator.distributions.constant import ConstantLatency
def io(ev):                      # generator I/O phase: 50 ms
    yield 0.05
srv = AsyncServer("srv", cpu_work_distribution=ConstantLatency(0.01), io_handler=io)
sim = Simulation(entities=[srv], end_time=Instant.from_seconds(10))
for i in range(3):               # three requests at t=0: r0 takes the CPU, r1 and r2 wait in the CPU queue
    sim.schedule(Event(time=Instant.Epoch, event_type="req", target=srv, context={"i": i}))
sim.run()
print(srv.stats.requests_completed, srv.cpu_queue_depth)   # 1 2 : r1, r2 never run (expected 3 0)
