import ast, pathlib
root=pathlib.Path('/repo/happysimulator')
def names_in(node): return {n.id for n in ast.walk(node) if isinstance(n,ast.Name)}
for p in sorted(root.rglob('*.py')):
    try: tree=ast.parse(p.read_text())
    except Exception: continue
    for fn in ast.walk(tree):
        if not isinstance(fn,ast.FunctionDef): continue
        ys=[n for n in ast.walk(fn) if isinstance(n,(ast.Yield,ast.YieldFrom))]
        if not ys: continue
        # names bound to Event(...) or calls returning events (release, _schedule, forward) or lists appended with Event
        made={}
        for n in ast.walk(fn):
            if isinstance(n,ast.Assign) and len(n.targets)==1 and isinstance(n.targets[0],ast.Name):
                src=ast.unparse(n.value)
                if 'Event(' in src or '.release(' in src or 'forward(' in src or '_schedule' in src or 'self.now' in src or '.now' in src:
                    made.setdefault(n.targets[0].id,[]).append(n.lineno)
            if isinstance(n,ast.Call) and isinstance(n.func,ast.Attribute) and n.func.attr in('append','extend') and isinstance(n.func.value,ast.Name):
                src=ast.unparse(n)
                if 'Event(' in src or 'self.now' in src:
                    made.setdefault(n.func.value.id,[]).append(n.lineno)
        for r in ast.walk(fn):
            if isinstance(r,ast.Return) and r.value is not None:
                for nm in names_in(r.value)&set(made):
                    l1=min(made[nm])
                    between=[y.lineno for y in ys if l1<y.lineno<r.lineno]
                    if between:
                        print(f"{p.relative_to(root)}:{fn.name}: '{nm}' made L{l1}, yield L{between[:3]}, returned L{r.lineno}")
