import json, subprocess, sys, os, time
prop=sys.argv[1]; ids=sys.argv[2].split(',') if len(sys.argv)>2 and sys.argv[2]!='all' else None
seeds=(sys.argv[3] if len(sys.argv)>3 else '1').split(',')
tests=(sys.argv[4]=='tests') if len(sys.argv)>4 else True
WT='/tmp/wt-E'
muts=json.load(open(f'/verif/sensitivity/mutants_{prop}.json'))
for m in muts:
    if ids and m['id'] not in ids: continue
    subprocess.run(['git','-C',WT,'checkout','-q','--','.'])
    p=os.path.join(WT,m['file']); s=open(p).read(); assert s.count(m['old'])>=1
    open(p,'w').write(s.replace(m['old'],m['new'],1))
    tst='-'
    if tests:
        r=subprocess.run(['/venv/bin/python','-m','pytest','-q','-p','no:cacheprovider','tests/unit/components/storage','tests/integration/storage','tests/unit/sketching' if os.path.isdir(WT+'/tests/unit/sketching') else 'tests/unit/components/storage','-x','-q'],cwd=WT,capture_output=True,text=True)
        tst=r.stdout.strip().splitlines()[-1][:60]
    for seed in seeds:
        t0=time.time()
        cmd=['/verif/check',prop,'--tier','quick','--seed',seed,'--scale','0.5','--jobs','6']
        if m.get('only'): cmd+=['--only',m['only']]
        env=dict(os.environ,VERIF_REPO=WT,VFW_NO_EVIDENCE='1',VFW_EXTRA_KNOWN=f'/verif/scratch/proposed_findings_{prop}.json')
        r=subprocess.run(cmd,capture_output=True,text=True,env=env,cwd='/verif')
        sigs=[l.strip()[10:].split(': ')[0] for l in r.stdout.splitlines() if l.strip().startswith('violated:')]
        print(m['id'],'seed',seed,'exit',r.returncode,f'{time.time()-t0:.0f}s','tests:',tst,'|',sigs[:5], flush=True)
        if r.returncode==2: print(r.stderr[-800:])
subprocess.run(['git','-C',WT,'checkout','-q','--','.'])
for f in os.listdir(f'/verif/replays/{prop}'):
    if f.startswith('new-'): os.remove(f'/verif/replays/{prop}/'+f)
