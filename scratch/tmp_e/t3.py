from happysimulator import Simulation, Event, Instant, Entity
from happysimulator.components.storage.lsm_tree import LSMTree, SizeTieredCompaction
T = 1 / 512
class Proc(Entity):
    def __init__(s, n, fn): super().__init__(n); s.fn = fn; s.out = None
    def handle_event(s, e): s.out = yield from s.fn(s)
lsm = LSMTree("db", memtable_size=1, compaction_strategy=SizeTieredCompaction(min_sstables=2),
              sstable_read_latency=T, sstable_write_latency=2 * T, max_levels=2)
def w0(s):
    yield from lsm.put("k01", 1000); yield from lsm.put("k00", 1001); yield from lsm.put("k00", 1002)
    return (yield from lsm.scan("k00", "k99"))
def w1(s):
    yield 3 * T; yield from lsm.put("k00", 2000); yield from lsm.put("k00", 2001)
def w2(s):
    yield from lsm.put("k00", 3000)
ps = [Proc("w0", w0), Proc("w1", w1), Proc("w2", w2)]
sim = Simulation(entities=[lsm] + ps)
lsm.put_sync("k01", 1)
for p, t in zip(ps, [0, 2, 6]): sim.schedule(Event(time=Instant.from_seconds(t * T), event_type="go", target=p))
sim.run()
print("scan returned", ps[0].out, "| k01 at rest:", lsm.get_sync("k01"))
