from happysimulator import Simulation, Event, Instant, Entity
from happysimulator.components.storage.lsm_tree import LSMTree, SizeTieredCompaction, _TOMBSTONE
T=1/512
class Proc(Entity):
    def __init__(s,n,fn): super().__init__(n); s.fn=fn
    def handle_event(s,e): yield from s.fn(s)
lsm=LSMTree("db",memtable_size=1,compaction_strategy=SizeTieredCompaction(min_sstables=2),sstable_write_latency=T,max_levels=2)
def show(tag):
    print(f"{lsm.now.to_seconds()/T:6.2f} {tag:12s}", [[ [(k,'T' if v is _TOMBSTONE else v) for k,v in s.scan()] for s in l] for l in lsm._levels], "imm",len(lsm._immutable_memtables))
def w0(s):
    yield from lsm.delete("k01"); show("del done")
def w1(s):
    yield from lsm.put("k00",2000); show("w1 put done")
def w2(s):
    yield from lsm.put("k00",3000); show("w2 put1 done")
    yield from lsm.put("k00",3001); show("w2 put2 done")
ps=[Proc("w0",w0),Proc("w1",w1),Proc("w2",w2)]
sim=Simulation(entities=[lsm]+ps)
lsm.put_sync("k01",1); show("pre")
for p,t in zip(ps,[1,0,0]): sim.schedule(Event(time=Instant.from_seconds(t*T),event_type="go",target=p))
sim.run()
print("final k01 =", lsm.get_sync("k01"), " (deleted at t=1..3 ticks)")
