import json,sys
sys.path.insert(0,'/verif')
from vfw.props import c14
case=json.loads(sys.argv[1])
h,store,info=c14.run_map_case("lsm",case)
for r in h.ops: print(r.brief())
for s in info["spans"]: print(s.name,s.start,s.end)
from happysimulator.components.storage.lsm_tree import _TOMBSTONE
print([[ [(k,'T' if v is _TOMBSTONE else v) for k,v in s.scan()] for s in l] for l in store._levels])
