from happysimulator import Simulation, Event, Instant, Entity
from happysimulator.components.client.connection_pool import ConnectionPool
from happysimulator.distributions.constant import ConstantLatency
T=1/512; TK=1953125
class Tg(Entity):
    def handle_event(s,e): pass
class W(Entity):
    def __init__(s,n,pool,holds): super().__init__(n); s.pool=pool; s.holds=holds
    def handle_event(s,e):
        for h in s.holds:
            print(f"{s.now.nanoseconds/TK:g} {s.name} acquire: idle={pool.idle_connections} total={pool.total_connections} pend={pool.pending_requests}")
            c=yield from s.pool.acquire()
            print(f"{s.now.nanoseconds/TK:g} {s.name} got {c.id}")
            yield h*T
            evs=s.pool.release(c)
            print(f"{s.now.nanoseconds/TK:g} {s.name} released {c.id}: idle={pool.idle_connections} active={pool.active_connections} pend={pool.pending_requests}")
            if evs: yield 0.0, evs
t=Tg("t")
pool=ConnectionPool("p",t,min_connections=1,max_connections=1,connection_timeout=500*10/512,connection_latency=ConstantLatency(3*T),idle_timeout=400*T)
ws=[W("w0",pool,[0]),W("w1",pool,[4])]
sim=Simulation(entities=[t,pool]+ws,end_time=Instant.from_seconds(60))
sim.schedule(Event(time=Instant(1*TK),event_type="go",target=ws[0]))
sim.schedule(Event(time=Instant(2*TK),event_type="go",target=ws[1]))
sim.schedule(pool.warmup())
def adv(tm):
    if pool.pending_requests and pool.idle_connections: print("  STRAND at advance to",tm.nanoseconds/TK,"pending",pool.pending_requests,"idle",pool.idle_connections)
sim.control.on_time_advance(adv)
sim.run()
