import json,sys,time
sys.path.insert(0,'/verif')
from vfw.props import c09
import happysimulator
ob={o.name:o for o in c09.OBLIGATIONS}
d=json.load(open(sys.argv[1]))
o=ob[d['obligation']]
for i in range(3):
    t=time.time(); r=o.execute(d['case']); print(time.time()-t, [v.sig for v in r.violations])
