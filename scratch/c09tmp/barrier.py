from happysimulator import Simulation, Event, Instant, Entity
from happysimulator.components.sync.barrier import Barrier
bar = Barrier("b", 3); log = []
class W(Entity):
    def handle_event(s, e):
        for g in range(2):
            log.append((s.now.to_seconds(), s.name, "arrive", g)); i = yield from bar.wait()
            log.append((s.now.to_seconds(), s.name, "leave", g, "idx", i))
ws = [W(f"w{i}") for i in range(3)]
sim = Simulation(entities=[bar, *ws], end_time=Instant.from_seconds(100))
for w in ws: sim.schedule(Event(time=Instant.from_seconds(0), event_type="go", target=w))
sim.run(); print(*log, sep="\n"); print("waiting", bar.waiting, "generation", bar.generation)
