import json,sys,time,cProfile,pstats
sys.path.insert(0,'/verif')
from vfw.props import c09
ob={o.name:o for o in c09.OBLIGATIONS}
d=json.load(open(sys.argv[1]))
o=ob[d['obligation']]
t=time.time(); r=o.execute(d['case']); print(time.time()-t, [v.sig for v in r.violations])
cProfile.run("o.execute(d['case'])","/tmp/c09prof")
pstats.Stats("/tmp/c09prof").sort_stats("cumtime").print_stats(18)
