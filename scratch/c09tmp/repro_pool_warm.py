from happysimulator import Simulation, Event, Instant, Entity
from happysimulator.components.client.connection_pool import ConnectionPool
from happysimulator.distributions.constant import ConstantLatency
class T(Entity):
    def handle_event(s, e): pass
class U(Entity):
    def __init__(s, n, hold): super().__init__(n); s.hold = hold
    def handle_event(s, e):
        if e.event_type == "warm": return [pool.warmup()]
        c = yield from pool.acquire(); print(s.now.to_seconds(), s.name, "got", c.id, "active", pool.active_connections, "idle", pool.idle_connections, "total", pool.total_connections)
        yield s.hold; pool.release(c)
t = T("t"); pool = ConnectionPool("p", t, min_connections=1, max_connections=1, connection_latency=ConstantLatency(3.0), connection_timeout=100.0)
u0, u1 = U("u0", 20.0), U("u1", 1.0)
sim = Simulation(entities=[t, pool, u0, u1], end_time=Instant.from_seconds(60))
sim.schedule([Event(time=Instant.from_seconds(0), event_type="go", target=u0), Event(time=Instant.from_seconds(1), event_type="warm", target=u0),
              Event(time=Instant.from_seconds(3.5), event_type="go", target=u1)])
sim.control.on_time_advance(lambda now: pool.pending_requests and pool.idle_connections and print(" clock ->", now.to_seconds(), "pending", pool.pending_requests, "idle", pool.idle_connections, "total", pool.total_connections))
sim.run()
