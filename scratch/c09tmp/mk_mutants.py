import json
R="happysimulator/components/"
M=[
 dict(id="C09-m1", file=R+"resource.py", old="            waiter = self._waiters[0]\n\n            if self._available >= waiter.amount:\n                self._waiters.popleft()",
      new="            waiter = self._waiters[-1]\n\n            if self._available >= waiter.amount:\n                self._waiters.pop()", note="Resource._wake_waiters serves the newest waiter (DESIGN M45)", only="resource"),
 dict(id="C09-m2", file=R+"resource.py", old="        if self._released:\n            return\n        self._released = True\n        self._resource._do_release(self._amount)",
      new="        self._released = True\n        self._resource._do_release(self._amount)", note="Grant.release not idempotent (M46)", only="resource"),
 dict(id="C09-m3", file=R+"resource.py", old="        if self._available >= amount:\n            # Immediate grant", new="        if self._available > 0:\n            # Immediate grant",
      note="Resource.acquire grants immediately whenever anything is free", only="resource"),
 dict(id="C09-m4", file=R+"sync/semaphore.py", old="                self._waiters.popleft()\n                self._count -= waiter.count\n", new="                self._waiters.popleft()\n",
      note="Semaphore wakes a waiter without taking its permits (M47)", only="semaphore"),
 dict(id="C09-m5", file=R+"sync/rwlock.py", old="        if self._write_locked:\n            return False\n        if self._has_waiting_writer():", new="        if self._has_waiting_writer():",
      note="RWLock lets a reader in while a writer holds (M48)", only="rwlock"),
 dict(id="C09-m6", file=R+"sync/mutex.py", old="            # Lock transfers directly to next waiter\n            self._locked = True", new="            # Lock transfers directly to next waiter\n            self._locked = False",
      note="Mutex.release with waiters unlocks (M50)", only="mutex"),
 dict(id="C09-m7", file=R+"sync/mutex.py", old="            waiter = self._waiters.popleft()", new="            waiter = self._waiters.pop()", note="Mutex hands the lock to the newest waiter", only="mutex"),
 dict(id="C09-m8", file=R+"client/connection_pool.py", old="            waiter_id, _request_time, callback = self._waiters.popleft()", new="            waiter_id, _request_time, callback = self._waiters.pop()",
      note="pool hands a released connection to the newest waiter", only="pool"),
 dict(id="C09-m9", file=R+"client/connection_pool.py", old="                waiter_id,\n            )\n            return []\n", new="                waiter_id,\n            )\n",
      note="pool: connection handed to a waiter is also put back into the idle list", only="pool"),
 dict(id="C09-m10", file=R+"resilience/bulkhead.py", old="        if self._active_count < self._max_concurrent:\n            return self._forward_request(event)", new="        if self._active_count <= self._max_concurrent:\n            return self._forward_request(event)",
      note="Bulkhead admits one request too many", only="bulkhead"),
 dict(id="C09-m11", file=R+"resilience/bulkhead.py", old="        waiting = self._wait_queue.popleft()", new="        waiting = self._wait_queue.pop()", note="Bulkhead serves the newest queued request", only="bulkhead"),
 dict(id="C09-m12", file=R+"server/concurrency.py", old="        if self._active >= self._current_limit:\n            return False", new="        if self._active > self._current_limit:\n            return False",
      note="DynamicConcurrency admits limit+1", only="limiter"),
 dict(id="C09-m13", file=R+"server/concurrency.py", old="        self._used_capacity = max(0, self._used_capacity - weight)", new="        self._used_capacity = max(0, self._used_capacity - 1)",
      note="WeightedConcurrency.release gives back one unit only (leak)", only="limiter"),
 dict(id="C09-m14", file=R+"sync/barrier.py", old="        if len(self._waiters) + 1 >= self._parties:", new="        if len(self._waiters) + 2 >= self._parties:", note="Barrier breaks one party early", only="barrier"),
 dict(id="C09-m15", file=R+"sync/condition.py", old="        while self._waiters and woken < n:\n            waiter = self._waiters.popleft()", new="        while self._waiters and woken < n:\n            waiter = self._waiters.pop()",
      note="Condition.notify wakes the newest waiter", only="condition"),
 dict(id="C09-m16", file=R+"industrial/preemptible_resource.py", old="            priority=priority,\n            insert_order=self._insert_counter,", new="            priority=-priority,\n            insert_order=self._insert_counter,",
      note="PreemptibleResource queues waiters with inverted priority", only="preemptible"),
 dict(id="C09-m17", file=R+"sync/semaphore.py", old="            waiter = self._waiters[0]\n\n            if self._count >= waiter.count:\n                # Can satisfy this waiter\n                self._waiters.popleft()",
      new="            waiter = self._waiters[-1]\n\n            if self._count >= waiter.count:\n                # Can satisfy this waiter\n                self._waiters.pop()", note="Semaphore serves the newest waiter", only="semaphore"),
 dict(id="C09-m18", file=R+"server/concurrency.py", old="        if self._active >= self._max_concurrent:\n            return False", new="        if self._active > self._max_concurrent:\n            return False",
      note="FixedConcurrency admits limit+1 (ThreadPool workers)", only="threadpool"),
]
for m in M: m["prop"]="C09"
import os
for m in M:
    src=open("/repo/"+m["file"]).read()
    assert src.count(m["old"])>=1, m["id"]
json.dump(M,open("/verif/sensitivity/mutants_C09.json","w"),indent=1)
print(len(M))
