import sys,random
sys.path.insert(0,'/verif')
from vfw import harness
from vfw.props import c09
from hypothesis import given, settings, seed, HealthCheck, Phase
MAX={}
orig=harness.SimProbe._on_event
cur=[None]
def patched(self, ev):
    orig(self, ev)
    MAX[cur[0]]=max(MAX.get(cur[0],0), self._count_at)
harness.SimProbe._on_event=patched
for o in c09.OBLIGATIONS:
    if not o.name.endswith("-safe"): continue
    cur[0]=o.name
    @seed(7)
    @settings(max_examples=1500, database=None, deadline=None, phases=[Phase.generate], suppress_health_check=list(HealthCheck))
    @given(o.strategy("thorough"))
    def run(case):
        r=o.execute(case)
        if any('spin' in l for l in r.labels): MAX[cur[0]]=0 if MAX.get(cur[0],0)>=20000 else MAX[cur[0]]
    # track max only over non-spin: recompute by resetting when spin seen is crude; instead track separately
    run()
    print(o.name, MAX.get(o.name))
