from happysimulator import Simulation, Event, Instant, Entity
from happysimulator.components.industrial.preemptible_resource import PreemptibleResource
res = PreemptibleResource("r", 2); log = []
class W(Entity):
    def __init__(s, n, amt, prio, preempt, hold): super().__init__(n); s.a = (amt, prio, preempt, hold)
    def handle_event(s, e):
        amt, prio, preempt, hold = s.a
        g = yield res.acquire(amt, priority=prio, preempt=preempt)
        log.append((s.now.to_seconds(), s.name, "granted", "available", res.available)); yield hold; g.release()
ws = [W("h1", 1, 0, True, 10), W("h2", 1, 3, True, 10), W("w", 1, 1, False, 1), W("r2", 2, 2, True, 1)]
sim = Simulation(entities=[res, *ws])
for w, t in zip(ws, [0, 0, 1, 2]): sim.schedule(Event(time=Instant.from_seconds(t), event_type="go", target=w))
sim.control.on_time_advance(lambda t: log.append((t.to_seconds(), "clock moves; available", res.available, "queued", len(res._waiters))))
sim.run(); print(*log, sep="\n")
