import sys,time,cProfile,pstats
sys.path.insert(0,'/verif')
from vfw import runner
t=time.time()
cProfile.run("acc=runner.worker(('C09',sys.argv[1],'quick',1,60,0,'gen'))","/tmp/c09prof2")
print(time.time()-t, acc['evaluations'], acc['error'])
pstats.Stats("/tmp/c09prof2").sort_stats("cumtime").print_stats(30)
