#!/venv/bin/python
"""Own mutant loop (same semantics as tools/mutants.py, but own worktree, fewer jobs, and results merged into
sensitivity/kill_matrix.json in one short read-modify-write at the end, so concurrent builders do not clobber each other).
usage: run_mutants_c18c16.py C18 [ids] """
import json, os, subprocess, sys, time
HOME="/verif"; prop=sys.argv[1]; ids=set(sys.argv[2].split(",")) if len(sys.argv)>2 and sys.argv[2] else None
seeds=(sys.argv[3] if len(sys.argv)>3 else "1").split(",")
scale=sys.argv[4] if len(sys.argv)>4 else "0.5"
WT=f"/tmp/vfw-mut-{prop}"
def sh(*a, **k): return subprocess.run(a, capture_output=True, text=True, **k)
head=sh("git","-C","/repo","rev-parse","HEAD").stdout.strip()
if not os.path.isdir(WT):
    r=sh("git","-C","/repo","worktree","add","--detach","-f",WT,head); assert r.returncode==0, r.stderr
muts=[m for m in json.load(open(f"{HOME}/sensitivity/mutants_{prop}.json")) if not ids or m["id"] in ids]
out={}
for m in muts:
    sh("git","-C",WT,"checkout","-q","--",".")
    d=sh("git","-C","/repo","diff","HEAD").stdout
    if d.strip(): subprocess.run(["git","-C",WT,"apply"],input=d,text=True)
    for pf in [x for x in os.environ.get("MUT_PATCHES","").split(":") if x]:      # pending fix patches, in apply order
        r0=sh("git","-C",WT,"apply",pf); assert r0.returncode==0,(pf,r0.stderr)
    p=os.path.join(WT,m["file"]); src=open(p).read(); assert src.count(m["old"])>=1, m["id"]
    open(p,"w").write(src.replace(m["old"],m["new"],1))
    res={}
    for seed in seeds:
        t0=time.time()
        cmd=[f"{HOME}/check",prop,"--tier","quick","--seed",seed,"--scale",scale,"--jobs","8"]
        if m.get("only"): cmd+=["--only",m["only"]]
        env=dict(os.environ,VERIF_REPO=WT,VFW_NO_EVIDENCE="1",VFW_EXTRA_KNOWN=os.environ.get("MUT_KNOWN",f"{HOME}/scratch/proposed_findings_{prop}.json"))
        r=subprocess.run(cmd,capture_output=True,text=True,env=env,cwd=HOME)
        sigs=[l.strip()[10:] for l in r.stdout.splitlines() if l.strip().startswith("violated:")]
        res[seed]={"exit":r.returncode,"wall_s":round(time.time()-t0,1),"signatures":[s.split(": ")[0] for s in sigs][:6]}
        print(m["id"],seed,r.returncode,res[seed]["wall_s"],res[seed]["signatures"][:4],flush=True)
        if r.returncode==2: print(r.stderr[-1500:])
    out[m["id"]]={"prop":prop,"note":m.get("note",""),"file":m["file"],"repo_head":head[:7],"killed":all(v["exit"]==1 for v in res.values()),"runs":res}
sh("git","-C","/repo","worktree","remove","--force",WT)
for root,_,files in os.walk(f"{HOME}/replays/{prop}"):
    for f in files:
        if f.startswith("new-"): os.remove(os.path.join(root,f))
json.dump(out,open(f"{HOME}/scratch/reports/mutants_{prop}_result.json","w"),indent=1,sort_keys=True)
kp=f"{HOME}/sensitivity/kill_matrix.json"; km=json.load(open(kp)) if os.path.exists(kp) else {}
km.update(out); json.dump(km,open(kp,"w"),indent=1,sort_keys=True)
