"""Throw-away: C16 sequential invariants on CachedStore x policies (capacity, policy keys == cache keys, reads)."""
import random, sys, copy
from happysimulator import Simulation, Event, Instant, Entity
from happysimulator.components.datastore.kv_store import KVStore
from happysimulator.components.datastore.cached_store import CachedStore
from happysimulator.components.datastore import eviction_policies as ep
class Proc(Entity):
    def __init__(s,n,fn): super().__init__(n); s.fn=fn; s.out=None
    def handle_event(s,e): s.out = yield from s.fn(s)
def policies(clock):
    return {"LRU":ep.LRUEviction(),"LFU":ep.LFUEviction(),"TTL":ep.TTLEviction(ttl=0.05,clock_func=clock),"FIFO":ep.FIFOEviction(),
            "Random":ep.RandomEviction(seed=1),"SLRU":ep.SLRUEviction(),"SampledLRU":ep.SampledLRUEviction(sample_size=2,seed=1),
            "Clock":ep.ClockEviction(),"TwoQ":ep.TwoQueueEviction()}
def drain(pol):
    c=copy.deepcopy(pol); out=[]
    for _ in range(1000):
        k=c.evict()
        if k is None: break
        out.append(k)
    return out
def run(seed):
    rng=random.Random(seed); res=set()
    kv=KVStore("kv",read_latency=0.001,write_latency=0.001)
    holder={}
    pols=policies(lambda: holder["cs"].now.to_seconds())
    pname=rng.choice(list(pols)); wt=rng.random()<0.5; cap=rng.randint(1,3)
    cs=CachedStore("cs",kv,cache_capacity=cap,eviction_policy=pols[pname],write_through=wt); holder["cs"]=cs
    keys=[f"k{i}" for i in range(rng.randint(2,5))]
    ops=[(rng.choice(["get","get","put","put","delete","inval","flush","inval_all"]),rng.choice(keys),rng.randint(1,99)) for _ in range(rng.randint(1,25))]
    model={}
    def body(s):
        for op,k,v in ops:
            if op=="get":
                r=yield from cs.get(k)
                if r!=model.get(k): res.add(f"read-mismatch")
            elif op=="put": yield from cs.put(k,v); model[k]=v
            elif op=="delete": yield from cs.delete(k); model.pop(k,None)
            elif op=="inval":
                if not wt and k in cs.get_dirty_keys(): continue   # (exclude dirty invalidation in this pass)
                cs.invalidate(k)
            elif op=="inval_all":
                if not wt and cs.get_dirty_keys(): continue
                cs.invalidate_all()
            elif op=="flush": yield from cs.flush()
            yield 0.01
            if cs.cache_size>cap: res.add("over-capacity")
            tracked=drain(cs._eviction_policy)
            if sorted(set(tracked))!=sorted(cs.get_cached_keys()): res.add(f"policy-keys-diverge")
            if len(tracked)!=len(set(tracked)): res.add("policy-dup-keys")
            if not set(cs.get_dirty_keys())<=set(cs.get_cached_keys()): res.add("dirty-not-cached")
        yield from cs.flush()
        for k in keys:
            if kv.get_sync(k)!=model.get(k): res.add("backing-mismatch-after-flush" + ("-wb" if not wt else "-wt"))
    p=Proc("p",body)
    sim=Simulation(entities=[kv,cs,p],end_time=Instant.from_seconds(100))
    sim.schedule(Event(time=Instant.from_seconds(0),event_type="go",target=p)); sim.run()
    return pname,res
tot={}
for s in range(int(sys.argv[1])):
    try:
        pn,res=run(s)
        for r in res: tot.setdefault((pn,r),[]).append(s)
    except Exception as e:
        tot.setdefault(("EXC",type(e).__name__+":"+str(e)[:50]),[]).append(s)
for k,v in sorted(tot.items()): print(k,len(v),v[:4])
