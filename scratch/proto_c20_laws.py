"""Throw-away: C20 oracles on the pinned tree (soundness of laws/tolerances, any real defects?)."""
import random, sys, copy
from collections import Counter
from happysimulator.sketching.bloom_filter import BloomFilter
from happysimulator.sketching.count_min_sketch import CountMinSketch
from happysimulator.sketching.topk import TopK
from happysimulator.sketching.hyperloglog import HyperLogLog
from happysimulator.sketching.tdigest import TDigest
from happysimulator.sketching.reservoir import ReservoirSampler
from happysimulator.sketching.merkle_tree import MerkleTree
def stream(rng):
    u=rng.choice([2,3,5,20]); n=rng.randint(0,60)
    items=[f"k{rng.randrange(u)}" if rng.random()<0.8 else rng.randrange(u) for _ in range(n)]
    return items
def run(seed):
    rng=random.Random(seed); res=set(); s=stream(rng); cut=rng.randint(0,len(s)); true=Counter(s)
    sd=rng.choice([None,0,1,7])
    # bloom
    mk=lambda: BloomFilter(size_bits=rng_bits, num_hashes=nh, seed=sd)
    rng_bits=rng.choice([8,16,64]); nh=rng.choice([1,2,3])
    a,b,c=mk(),mk(),mk()
    for x in s[:cut]: a.add(x)
    for x in s[cut:]: b.add(x)
    for x in s: c.add(x)
    if any(not c.contains(x) for x in s): res.add("bloom-fn")
    a.merge(b)
    if a._bits!=c._bits: res.add("bloom-merge")
    # cms
    w=rng.choice([1,2,4,8]); d=rng.choice([1,2,3])
    mk=lambda: CountMinSketch(width=w,depth=d,seed=sd)
    a,b,c=mk(),mk(),mk()
    wts=[rng.choice([1,1,2,5]) for _ in s]
    for x,k in zip(s[:cut],wts[:cut]): a.add(x,k)
    for x,k in zip(s[cut:],wts[cut:]): b.add(x,k)
    for x,k in zip(s,wts): c.add(x,k)
    tw=Counter()
    for x,k in zip(s,wts): tw[x]+=k
    if any(c.estimate(x)<tw[x] for x in tw): res.add("cms-under")
    a.merge(b)
    if a._counters!=c._counters or a.item_count!=c.item_count: res.add("cms-merge")
    # topk
    k=rng.choice([1,2,3,4]); t=TopK(k=k)
    for x,kk in zip(s,wts): t.add(x,kk)
    N=sum(wts)
    for x in tw:
        e=t.estimate_with_error(x)
        if x in t:
            if not (tw[x] <= e.count <= tw[x]+e.error): res.add("topk-bound")
        else:
            if tw[x] > t.max_error(): res.add("topk-untracked>maxerr")
        if tw[x] > N/k and x not in t: res.add("topk-heavy-missing")
    # hll
    p=rng.choice([4,6,10]); mk=lambda: HyperLogLog(precision=p,seed=sd)
    a,b,c=mk(),mk(),mk()
    for x in s[:cut]: a.add(x)
    for x in s[cut:]: b.add(x)
    for x in s: c.add(x)
    a.merge(b)
    if a._registers!=c._registers: res.add("hll-merge")
    # tdigest
    vals=[rng.choice([rng.uniform(-100,100), float(rng.randint(0,3)), rng.uniform(0,1e-3)]) for _ in range(rng.randint(1,200))]
    td=TDigest(compression=rng.choice([5,20,100]))
    for v in vals: td.add(v, rng.choice([1,1,1,3]))
    qs=sorted(rng.random() for _ in range(30)); qs=[0.0]+qs+[1.0]
    qv=[td.quantile(q) for q in qs]
    for x,y in zip(qv,qv[1:]):
        if x > y + 1e-9*max(1,abs(x),abs(y)): res.add("td-nonmono")
    if any(v<min(vals)-1e-12 or v>max(vals)+1e-12 for v in qv): res.add("td-range")
    # reservoir
    kk=rng.choice([1,3,10]); r=ReservoirSampler(size=kk,seed=sd)
    for x in s: r.add(x)
    if len(r.sample())!=min(kk,len(s)): res.add("res-len")
    if not (Counter(map(repr,r.sample())) <= Counter(map(repr,s))): res.add("res-items")
    # merkle
    keys=[f"k{i}" for i in range(rng.choice([1,2,3,5,8]))]
    A={k:rng.randrange(3) for k in keys if rng.random()<0.8}
    B=dict(A)
    for _ in range(rng.randint(0,3)):
        op=rng.random(); k=rng.choice(keys+["zz","a0"])
        if op<0.4: B[k]=rng.randrange(3)
        elif op<0.7: B.pop(k,None)
        else: A.pop(k,None)
    ta,tb=MerkleTree.build(A),MerkleTree.build(B)
    d=ta.diff(tb)
    if (d==[])!=(A==B): res.add("merkle-empty-iff-equal")
    for k in set(A)|set(B):
        if A.get(k,"_")!=B.get(k,"_"):
            if not any(r.start<=k<=r.end for r in d): res.add("merkle-uncovered")
    return res
tot={}
for sdd in range(int(sys.argv[1])):
    try:
        for r in run(sdd): tot.setdefault(r,[]).append(sdd)
    except Exception as e:
        tot.setdefault("EXC "+type(e).__name__+str(e)[:60],[]).append(sdd)
print({k:(len(v),v[:4]) for k,v in tot.items()})
