"""Throw-away: C18 clock oracles on the pinned tree."""
import random, sys, copy, itertools
from happysimulator.core.logical_clocks import LamportClock, VectorClock, HybridLogicalClock
from happysimulator.core.temporal import Instant
def run(seed):
    rng=random.Random(seed); res=set()
    n=rng.randint(2,5); ids=[f"n{i}" for i in range(n)]
    gtime=[0]
    skew=[rng.randint(-5_000,5_000) for _ in ids]; drift=[rng.choice([1.0,1.001,0.999,1.5]) for _ in ids]
    lam=[LamportClock() for _ in ids]; vec=[VectorClock(i,ids) for i in ids]
    hlc=[HybridLogicalClock(ids[i], wall_time=(lambda i=i: Instant(max(0,int(gtime[0]*drift[i])+skew[i])))) for i in range(n)]
    events=[]  # (node, lam_ts, vec_snapshot_clock, hlc_ts, preds)
    last=[None]*n; inflight=[]
    for step in range(rng.randint(1,40)):
        gtime[0]+=rng.choice([0,0,1,10,1000])
        i=rng.randrange(n); r=rng.random()
        preds=[last[i]] if last[i] is not None else []
        if r<0.3:
            lam[i].tick(); l=lam[i].time; vec[i].tick(); h=hlc[i].now()
        elif r<0.65 or not inflight:
            l=lam[i].send(); vec[i].send(); h=hlc[i].send()
            inflight.append((len(events), l, copy.deepcopy(vec[i]).snapshot(), h))
        else:
            m=inflight.pop(rng.randrange(len(inflight))) if rng.random()<0.8 else rng.choice(inflight)
            src,l0,v0,h0=m
            lam[i].receive(l0); l=lam[i].time; vec[i].receive(v0); hlc[i].receive(h0); h=hlc[i].now()
            preds.append(src)
        events.append((i,l,copy.deepcopy(vec[i]),h,preds)); last[i]=len(events)-1
    N=len(events); hb=[[False]*N for _ in range(N)]
    for b,(i,l,v,h,preds) in enumerate(events):
        for a in preds:
            hb[a][b]=True
            for c in range(N):
                if hb[c][a]: hb[c][b]=True
    for a in range(N):
        for b in range(N):
            if a==b: continue
            if hb[a][b]:
                if not events[a][1]<events[b][1]: res.add("lamport")
                if not events[a][3]<events[b][3]: res.add("hlc")
                if not events[a][2].happened_before(events[b][2]): res.add("vc-missing")
            else:
                if events[a][2].happened_before(events[b][2]): res.add("vc-spurious")
            if not hb[a][b] and not hb[b][a]:
                if not events[a][2].is_concurrent(events[b][2]): res.add("vc-concurrent")
    return res
tot={}
for s in range(int(sys.argv[1])):
    for r in run(s): tot.setdefault(r,[]).append(s)
print(tot and {k:(len(v),v[:4]) for k,v in tot.items()})
