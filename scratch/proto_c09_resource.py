"""Throw-away: C09 oracles on Resource (expected to hold) and PreemptibleResource."""
import random, sys
from happysimulator import Simulation, Event, Instant, Entity
from happysimulator.components.resource import Resource
TICK=1_953_125
class Worker(Entity):
    def __init__(s,n,res,script,log): super().__init__(n); s.res=res; s.script=script; s.log=log
    def handle_event(s,e):
        for amt,hold in s.script:
            t_req=s.now.nanoseconds; avail_before=s.res.available; waiters_before=s.res.waiters
            fut=s.res.acquire(amt); blocked=not fut.is_resolved
            s.log.append(("req",t_req,s.name,amt,blocked))
            g=yield fut
            s.log.append(("grant",s.now.nanoseconds,s.name,amt,blocked))
            yield hold/512
            s.log.append(("rel",s.now.nanoseconds,s.name,amt))
            g.release()
def run(seed):
    rng=random.Random(seed); res=set()
    cap=rng.randint(1,5); r=Resource("r",cap); log=[]
    ws=[Worker(f"w{i}",r,[(rng.randint(1,cap),rng.choice([0,1,2,3])) for _ in range(rng.randint(1,3))],log) for i in range(rng.randint(2,5))]
    sim=Simulation(entities=[r,*ws],end_time=Instant(10_000*TICK))
    for w in ws: sim.schedule(Event(time=Instant(rng.choice([0,0,1,2,3])*TICK),event_type="go",target=w))
    held=[0]
    def after(ev):
        h=0
        # recompute held from log
        out={}
        for rec in log:
            if rec[0]=="grant": out[rec[2]]=out.get(rec[2],0)+rec[3]
            if rec[0]=="rel": out[rec[2]]=out.get(rec[2],0)-rec[3]
        # releases logged just before g.release(); tolerate: held >= cap - available
        tot=sum(out.values())
        if r.available<0 or r.available>cap: res.add("available-out-of-range")
    sim.control.on_event(after)
    maxper={}
    def adv(t):
        cnt=0
    sim.run()
    # post-hoc checks
    outstanding=0; blocked_q=[]
    grants=[x for x in log if x[0]=="grant"]; reqs=[x for x in log if x[0]=="req"]
    if len(grants)!=len(reqs): res.add("unserved-request")
    # FIFO among blocked: order of grant among blocked requests equals order of request
    b_req=[(x[1],x[2],x[3]) for x in reqs if x[4]]
    b_gr=[(x[2],x[3]) for x in grants if x[4]]
    if [(n,a) for _,n,a in b_req][:len(b_gr)]!=b_gr: res.add("blocked-not-fifo")
    # capacity: replay log in order
    cur=0
    for x in log:
        if x[0]=="grant":
            cur+=x[3]
            if cur>cap: res.add("over-capacity")
        if x[0]=="rel": cur-=x[3]
    if r.available!=cap: res.add("leak-at-end")
    # grant instant == some release instant for blocked
    rel_times={x[1] for x in log if x[0]=="rel"}
    for x in grants:
        if x[4] and x[1] not in rel_times: res.add("blocked-grant-not-at-release-instant")
    return res
tot={}
for s in range(int(sys.argv[1])):
    try:
        for x in run(s): tot.setdefault(x,[]).append(s)
    except Exception as e: tot.setdefault("EXC "+type(e).__name__+str(e)[:60],[]).append(s)
print({k:(len(v),v[:4]) for k,v in tot.items()})
