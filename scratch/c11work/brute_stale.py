import sys, json, itertools
sys.path.insert(0,'/verif')
from vfw.props import c11
ex=c11.ex_safety("safety")
base={"n": 5, "hb": 40, "eto": [150, 150], "T": 3200, "timeouts": [0, 500, 300, 900, 900],
 "net": {"delays": [2], "loss": [], "seed": 1, "parts": [], "crashes": [],
         "slow": [{"src": 1, "dst": 0, "t": 150, "dur": 500, "delay": 1500}]},
 "submits": [{"t": 200, "node": 0, "leader": False}, {"t": 201, "node": 0, "leader": False}, {"t": 600, "node": 0, "leader": True},{"t": 1400, "node": 0, "leader": True}]}
found=0
for seed in range(int(sys.argv[1]), int(sys.argv[2])):
    for crash in (2,3,4):
        for k in (2,3,4):
            if k==crash: continue
            c=json.loads(json.dumps(base)); c["net"]["seed"]=seed
            c["net"]["parts"]=[{"t":210,"dur":600,"mask":3},{"t":1390,"dur":1800,"mask":1|(1<<k)}]
            c["net"]["crashes"]=[{"node":crash,"t":950,"dur":0,"rearm":False}]
            r=ex(c)
            sigs=[v.sig for v in r.violations]
            if any("stale" in s for s in sigs) or any("r3-commit" in s and "overclaimed" not in s for s in sigs):
                print(seed,crash,k,sigs); found+=1
                json.dump(c,open(f"/verif/scratch/c11work/stale_found_{found}.json","w"))
                if found>=3: sys.exit()
print("done",found)
