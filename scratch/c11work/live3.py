import sys, time
sys.path.insert(0,'/verif')
from hypothesis import given, settings, seed, HealthCheck, Phase
from vfw.props import c11
from collections import Counter
cases=[]
@seed(1)
@settings(max_examples=100, database=None, deadline=None, phases=[Phase.generate], suppress_health_check=list(HealthCheck))
@given(c11.liveness_strategy("quick"))
def g(c): cases.append(c)
g()
cnt=Counter()
for c in cases:
    r=c11.ex_liveness(c); cnt.update(r.labels)
    if len(c["timeouts"])>=3 and "single-candidate" in r.labels and cnt["x"]<5: cnt["x"]+=1; print(c, r.observed)
print(cnt)
