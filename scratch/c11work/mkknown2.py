import sys, json, glob, os
sys.path.insert(0,'/verif')
from vfw import runner
obls={o.name:o for o in runner.get_obligations("C11")}
def mk(case, obl, want_sub, shrink=False):
    res=runner.safe_execute("C11", obls[obl], case, 60)
    v=next(v for v in res.violations if want_sub in v.sig)
    if shrink:
        case,_=runner.shrink("C11", obls[obl], case, v.sig, 60.0)
        res=runner.safe_execute("C11", obls[obl], case, 60)
        v=next(x for x in res.violations if x.sig==v.sig)
    slug="".join(ch if ch.isalnum() else "-" for ch in v.sig.split("/",1)[1])[:80].strip("-")
    out=f"/verif/replays/C11/known-{slug}-{runner.case_hash(case)}.json"
    json.dump({"property":"C11","obligation":obl,"signature":v.sig,"detail":v.detail,"case":case,
               "all_signatures":sorted(x.sig for x in res.violations)}, open(out,"w"), indent=1, sort_keys=True)
    print(out, len(runner.canon(case)))
old="/verif/replays/C11/known-safety-consequence-of-r3ack-state-machine-safety-different-commands-at-one-index-bd78df73101dacc5.json"
d=json.load(open(old)); mk(d["case"],"safety","consequence-of-overclaim/state-machine"); os.remove(old)
mk(json.load(open("/verif/scratch/c11work/stale_found_1.json")),"regain","stale-ack",shrink=True)
