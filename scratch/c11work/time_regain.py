import sys, time
sys.path.insert(0,'/verif')
from hypothesis import given, settings, seed, HealthCheck, Phase
from vfw.props import c11
cases=[]
@seed(1)
@settings(max_examples=40, database=None, deadline=None, phases=[Phase.generate], suppress_health_check=list(HealthCheck))
@given(c11.regain_strategy("quick"))
def g(c): cases.append(c)
t=time.time(); g(); print("gen", round(time.time()-t,2))
ex=c11.ex_safety("safety"); ex(cases[0])
tl=[];tm=[]
for c in cases:
    t=time.time(); r=ex(c); dt=time.time()-t
    (tl if not c["net"]["slow"] else tm).append((round(dt,3), r.observed["events"]))
print("late", tl[:8]); print("main", tm[:8])
