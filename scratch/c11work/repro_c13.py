import random
from happysimulator import Simulation, Instant
from happysimulator.components.consensus.membership import MembershipProtocol
from happysimulator.components.network.network import Network
from happysimulator.components.network.link import NetworkLink
from happysimulator.distributions.constant import ConstantLatency
from happysimulator.faults.schedule import FaultSchedule
from happysimulator.faults.node_faults import CrashNode
random.seed(3)
net = Network(name="net"); ms = [MembershipProtocol(f"m{i}", net, probe_interval=1.0, suspicion_timeout=3.0) for i in range(4)]
for a in ms:
    for b in ms:
        if a is not b: a.add_member(b); net.add_link(a, b, NetworkLink(name=f"{a.name}>{b.name}", latency=ConstantLatency(0.01)))
fs = FaultSchedule(); fs.add(CrashNode("m0", at=0.0))                    # m0 never says a word
sim = Simulation(entities=[net, *ms], fault_schedule=fs, end_time=Instant.from_seconds(600))
for m in ms: sim.schedule(m.start())
sim.run()
print({m.name: m.get_member_state("m0").name for m in ms[1:]}, "after 600 probe rounds")
