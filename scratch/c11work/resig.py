import sys, json, glob, os
sys.path.insert(0,'/verif')
from vfw import runner
obls={o.name:o for o in runner.get_obligations("C11")}
for f in sorted(glob.glob("/verif/replays/C11/new-*.json")):
    d=json.load(open(f))
    res=runner.safe_execute("C11", obls[d["obligation"]], d["case"], 60)
    print(os.path.basename(f)[:60], len(runner.canon(d["case"])), sorted(v.sig.replace("C11/","") for v in res.violations))
