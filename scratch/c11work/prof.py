import sys, time, cProfile, pstats
sys.path.insert(0,'/verif')
from hypothesis import given, settings, seed, HealthCheck, Phase
from vfw.props import c11
cases=[]
@seed(int(sys.argv[1]) if len(sys.argv)>1 else 1)
@settings(max_examples=60, database=None, deadline=None, phases=[Phase.generate], suppress_health_check=list(HealthCheck))
@given(c11.safety_strategy(True)("quick"))
def g(c): cases.append(c)
t=time.time(); g(); print("gen",time.time()-t, len(cases))
ex=c11.ex_safety("safety")
def run():
    out=[]
    for c in cases:
        t=time.time(); r=ex(c); out.append((time.time()-t, r.observed["events"], [v.sig for v in r.violations]))
    return out
pr=cProfile.Profile(); pr.enable(); out=run(); pr.disable()
print("total",sum(o[0] for o in out), "events",sum(o[1] for o in out))
from collections import Counter
cnt=Counter(s for o in out for s in o[2]); print(cnt)
pstats.Stats(pr).sort_stats("cumtime").print_stats(25)
