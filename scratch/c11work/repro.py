# Minimal hand-driven reproductions of the three C11 root causes (run: PYTHONPATH=<tree> python repro.py)
from happysimulator.components.consensus.raft import RaftNode
from happysimulator.components.network import Network
from happysimulator.core.clock import Clock
from happysimulator.core.event import Event
from happysimulator.core.temporal import Instant
def cluster(n=3):
    clock = Clock(Instant.Epoch); net = Network(name="net"); net.set_clock(clock)
    nodes = [RaftNode(name=f"n{i}", network=net) for i in range(n)]
    for x in nodes: x.set_clock(clock); x.set_peers(nodes)
    return nodes
def deliver(node, typ, **md):
    out = node.handle_event(Event(time=Instant.Epoch, event_type=typ, target=node, context={"metadata": md})) or []
    return [e.context["metadata"] for e in out if e.event_type.startswith("Raft") and "destination" in e.context["metadata"]]
# A: two votes in one term
a, b, c = cluster()
r1 = deliver(b, "RaftRequestVote", source="n0", term=1, candidate_id="n0", last_log_index=0, last_log_term=0)
deliver(b, "RaftAppendEntries", source="n0", term=1, leader_id="n0", prev_log_index=0, prev_log_term=0, entries=[], leader_commit=0)
r2 = deliver(b, "RaftRequestVote", source="n2", term=1, candidate_id="n2", last_log_index=0, last_log_term=0)
print("A: n1 grants in term 1 to n0:", r1[0]["vote_granted"], "and to n2:", r2[0]["vote_granted"])
# B: success ack claims a suffix that was never compared
a, b, c = cluster()
b._log.append(1, "stale-x")                                    # follower kept an uncommitted entry of an old leader
ack = deliver(b, "RaftAppendEntries", source="n0", term=2, leader_id="n0", prev_log_index=0, prev_log_term=0, entries=[], leader_commit=0)
print("B: heartbeat(prev=0, no entries) from a leader with an empty log answered with match_index =", ack[0]["match_index"])
# C: submit future resolved by another leader's entry at the same index
a, b, c = cluster()
a._start_election(); deliver(a, "RaftVoteResponse", source="n1", term=1, vote_granted=True, **{"from": "n1"})
fut = a.submit({"op": "set", "key": "k", "value": "mine"})      # n0 is leader of term 1, entry 1 = 'mine', never replicated
deliver(a, "RaftAppendEntries", source="n1", term=2, leader_id="n1", prev_log_index=0, prev_log_term=0,
        entries=[{"index": 1, "term": 2, "command": {"op": "set", "key": "k", "value": "theirs"}}], leader_commit=1)
print("C: submit('mine') future resolved:", fut.is_resolved, fut.value if fut.is_resolved else None, "log[1] =", a.log.get(1).command)
