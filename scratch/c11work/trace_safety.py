import sys, json
sys.path.insert(0,'/verif')
from vfw.props import c11
from vfw import harness
orig=harness.SimProbe
VERB = "-v" in sys.argv
class TP(orig):
    def __init__(self, sim, **k):
        user=k.get("on_event")
        mon=user.__self__
        last={}
        def cb(ev):
            if user: user(ev)
            md=ev.context.get("metadata",{}) if isinstance(ev.context,dict) else {}
            tn=getattr(ev.target,"name","?")
            if tn=="net" and type(ev).__name__=="ProcessContinuation": return
            st={k:(v.state[0],v.term,v.commit,v.ents) for k,v in mon.prev.items()}
            changed = st!=last.get("s")
            last["s"]=st
            if VERB or changed or not ev.event_type.startswith("Raft"):
                line=f"{ev.time.nanoseconds/1e6:9.3f} {ev.event_type:26s} -> {tn:6s} " + (f"{md.get('source','')}: " + " ".join(f"{k}={v}" for k,v in md.items() if k in ("term","vote_granted","success","match_index","prev_log_index","leader_commit")) + (f" ents={[(e['index'],e['term']) for e in md.get('entries',[])]}" if "entries" in md else ""))
                print(line)
                if changed: print("            ", " | ".join(f"{k}:{v[0]}{v[1]} c{v[2]} {list(v[3])}" for k,v in st.items()))
        k["on_event"]=cb
        super().__init__(sim, **k)
c11.harness.SimProbe=TP
_RS=harness.RandomShim
class RS(_RS):
    def uniform(self,a,b):
        import inspect
        k=self.draws; v=_RS.uniform(self,a,b)
        who=inspect.currentframe().f_back.f_locals.get("self")
        print(f"      draw#{k} by {getattr(who,'name','?')} -> {v*1000:.0f} ms (fires at {(who.now.to_seconds()+v)*1000:.0f})")
        return v
c11.harness.RandomShim=RS
src=sys.argv[1]
case=json.load(open(src)); case=case.get("case",case)
r=c11.ex_safety("safety")(case)
print(r.labels, r.observed)
for v in r.violations: print(v.sig, "::", v.detail)
