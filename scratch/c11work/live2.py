import sys, time
sys.path.insert(0,'/verif')
from hypothesis import given, settings, seed, HealthCheck, Phase
from vfw.props import c11
cases=[]
@seed(1)
@settings(max_examples=50, database=None, deadline=None, phases=[Phase.generate], suppress_health_check=list(HealthCheck))
@given(c11.liveness_strategy("quick"))
def g(c): cases.append(c)
g()
c11.ex_liveness(cases[0])
for c in cases[:50]:
    t=time.time(); r=c11.ex_liveness(c); dt=time.time()-t
    if dt>0.05: print(round(dt,2), r.labels, r.observed, c)
