import sys, json
sys.path.insert(0,'/verif')
from vfw.props import c11
from vfw import harness
orig=harness.SimProbe
class TP(orig):
    def __init__(self, sim, **k):
        def cb(ev):
            md=ev.context.get("metadata",{}) if isinstance(ev.context,dict) else {}
            tn=getattr(ev.target,"name","?")
            if tn=="net" and type(ev).__name__=="ProcessContinuation": return
            print(f"{ev.time.nanoseconds/1e6:9.3f} {ev.event_type:28s} -> {tn:22s}", {k:v for k,v in md.items() if k not in("destination",)})
        k["on_event"]=cb
        super().__init__(sim, **k)
harness.SimProbe=TP
c11.harness.SimProbe=TP
case=json.load(open(sys.argv[1]))["case"]
r=c11.ex_liveness(case)
print(r.labels,[(v.sig,v.detail) for v in r.violations])
