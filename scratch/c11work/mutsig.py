import json, subprocess, sys, os
WT=os.environ.get("MUT_WT","/tmp/wt-int"); prop=sys.argv[1]; scale=sys.argv[2]
known=[] if os.environ.get("MUT_NOKNOWN") else [e["signature"] for e in json.load(open(f"/verif/scratch/proposed_findings_{prop}.json"))["findings"]]
def is_known(s): return any((s.startswith(k[:-1]) if k.endswith("*") else s==k) for k in known)
for m in json.load(open(f"/verif/sensitivity/mutants_{os.environ.get("MUT_FILE",prop)}.json")):
    subprocess.run(["git","-C",WT,"checkout","-q","--","."])
    p=os.path.join(WT,m["file"]); s=open(p).read(); open(p,"w").write(s.replace(m["old"],m["new"],1))
    env=dict(os.environ, VFW_REPO=WT, PYTHONPATH=f"{WT}:/verif")
    r=subprocess.run(["/venv/bin/python","/verif/scratch/c11work/sigcount.py",prop,"1",scale],capture_output=True,text=True,env=env)
    new=[l.strip() for l in r.stdout.splitlines() if l.strip() and l.strip()[0].isdigit() and not is_known(l.split()[-1])]
    plain=[l for l in new if "consequence-of" not in l]
    print(m["id"], "| plain new:", plain[:6], "| consequences:", len(new)-len(plain)); sys.stdout.flush()
subprocess.run(["git","-C",WT,"checkout","-q","--","."])
