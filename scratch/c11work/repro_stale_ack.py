# D: a leader counts a success ack that a follower sent to it in an *earlier* term of leadership
from happysimulator.components.consensus.raft import RaftNode
from happysimulator.components.network import Network
from happysimulator.core.clock import Clock
from happysimulator.core.event import Event
from happysimulator.core.temporal import Instant
clock = Clock(Instant.Epoch); net = Network(name="net"); net.set_clock(clock)
n = [RaftNode(name=f"n{i}", network=net) for i in range(5)]
for x in n: x.set_clock(clock); x.set_peers(n)
def deliver(node, typ, md):
    out = node.handle_event(Event(time=Instant.Epoch, event_type=typ, target=node, context={"metadata": dict(md)})) or []
    return {e.context["metadata"]["destination"]: e.context["metadata"] for e in out if "destination" in e.context["metadata"]}
def elect(c, voters):
    rv = {e.context["metadata"]["destination"]: e.context["metadata"] for e in c._start_election() if e.event_type == "RaftRequestVote"}
    for v in voters: deliver(c, "RaftVoteResponse", deliver(v, "RaftRequestVote", rv[v.name])[c.name])
    assert c.is_leader
def cmd(v): return {"op": "set", "key": "k", "value": v}
def heartbeat(l): return {e.context["metadata"]["destination"]: e.context["metadata"] for e in l._send_append_entries()}
elect(n[0], [n[1], n[2]]); n[0].submit(cmd("a")); n[0].submit(cmd("b"))                 # term 1: n0 leads, log [a, b]
stale_ack = deliver(n[1], "RaftAppendEntries", heartbeat(n[0])["n1"])["n0"]   # n1 stores a, b; its ack (match 2) is delayed
elect(n[2], [n[3], n[4]]); n[2].submit(cmd("c"))                                   # term 2: n2 leads (n3, n4 have empty logs), log [c]
hb = heartbeat(n[2]); [deliver(n[i], "RaftAppendEntries", hb[f"n{i}"]) for i in (0, 3, 4)]   # n0 truncates a, b -> [c]
elect(n[0], [n[3], n[4]]); n[0].submit(cmd("d"))                                   # term 3: n0 leads again, log [c, d]
deliver(n[0], "RaftAppendEntriesResponse", stale_ack)                         # the ack of term 1 arrives now
deliver(n[0], "RaftAppendEntriesResponse", deliver(n[3], "RaftAppendEntries", heartbeat(n[0])["n3"])["n0"])
print("D: leader n0 term", n[0].current_term, "commit_index", n[0].log.commit_index, "| logs:",
      {x.name: [e.command["value"] for e in x.log.entries_after(0)] for x in n})
