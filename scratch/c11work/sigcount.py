"""usage: VFW_REPO=<tree> PYTHONPATH=<tree>:/verif python sigcount.py C11 seeds(1,2,3) scale [only]  -> per-signature hit counts"""
import sys, math, multiprocessing as mp
from collections import Counter
sys.path.insert(0, '/verif')
from vfw import runner
def main():
    prop, seeds, scale = sys.argv[1], [int(x) for x in sys.argv[2].split(',')], float(sys.argv[3])
    only = sys.argv[4] if len(sys.argv) > 4 else None
    import happysimulator; print("tree:", happysimulator.__file__)
    tasks = []
    for o in runner.get_obligations(prop):
        if only and only not in o.name: continue
        n = int(math.ceil(o.budget["quick"] * scale)); shards = max(1, min(6, n // 20 or 1)); per = int(math.ceil(n / shards))
        for seed in seeds:
            for s in range(shards): tasks.append((prop, o.name, "quick", seed, per, s, "gen"))
    with mp.get_context("fork").Pool(6) as pool: res = pool.map(runner.worker, tasks, chunksize=1)
    cnt, ev, lab = Counter(), Counter(), Counter()
    for r in res:
        if r.get("error"): print("ERROR", r["error"]); continue
        ev[r["oname"]] += r["evaluations"]
        for k, v in r["labels"].items(): lab[(r["oname"], k)] += v
        for sig, v in r["viol"].items(): cnt[sig] += v["count"]
    print("evaluations", dict(ev))
    for k, v in sorted(cnt.items()): print(f"{v:6d}  {k}")
    if "-l" in sys.argv: print(sorted(lab.items()))
main()
