import sys, time
sys.path.insert(0,'/verif')
from vfw.props import c11
case={"n":4,"hb":30,"emin":100,"timeouts":[0,10,20,500],"delays":[10,10,10,1,1,1,5],"seed":3,"gaps":[0,10,50]}
t=time.time(); r=c11.ex_liveness(case); print(time.time()-t, r.labels, r.observed, [(v.sig,v.detail) for v in r.violations])
