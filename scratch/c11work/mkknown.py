import sys, json, glob, os
sys.path.insert(0,'/verif')
from vfw import runner
obls={o.name:o for o in runner.get_obligations("C11")}
def mk(src, want_sub):
    d=json.load(open(src))
    res=runner.safe_execute("C11", obls[d["obligation"]], d["case"], 60)
    v=next(v for v in res.violations if want_sub in v.sig)
    slug="".join(ch if ch.isalnum() else "-" for ch in v.sig.split("/",1)[1])[:80].strip("-")
    out=f"/verif/replays/C11/known-{slug}-{runner.case_hash(d['case'])}.json"
    json.dump({"property":"C11","obligation":d["obligation"],"signature":v.sig,"detail":v.detail,"case":d["case"],
               "all_signatures":sorted(x.sig for x in res.violations)}, open(out,"w"), indent=1, sort_keys=True)
    print(out)
f=[x for x in glob.glob("/verif/replays/C11/new-safety-state-machine-safety-*.json")]
best=None
for x in f:
    d=json.load(open(x)); res=runner.safe_execute("C11", obls["safety"], d["case"], 60)
    if any("consequence-of-r3ack/state-machine" in v.sig for v in res.violations): best=x
mk(best,"consequence-of-r3ack/state-machine")
mk("/verif/replays/C11/new-liveness-established-leader-deposed-on-fault-free-network-60ffa88c0e8b9a35.json","established-leader-deposed")
