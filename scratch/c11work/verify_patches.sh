#!/bin/bash
# usage: verify_patches.sh PROP WT  -> per-signature counts at seeds 1,2,3 for each patch alone and all together
PROP=$1; WT=$2
cd /verif
for cfg in $(ls scratch/fixes/$PROP-*.patch) ALL; do
  git -C $WT checkout -q -- .
  if [ "$cfg" = ALL ]; then for p in scratch/fixes/$PROP-*.patch; do git -C $WT apply /verif/$p; done; else git -C $WT apply /verif/$cfg; fi
  echo "=== $cfg"
  VFW_REPO=$WT PYTHONPATH=$WT:/verif /venv/bin/python scratch/c11work/sigcount.py $PROP 1,2,3 1.0
done
git -C $WT checkout -q -- .
