import json, subprocess, sys, os
WT=os.environ.get("MUT_WT","/tmp/wt-int")
prop=sys.argv[1]; tests=sys.argv[2:]
for m in json.load(open(f"/verif/sensitivity/mutants_{prop}.json")):
    subprocess.run(["git","-C",WT,"checkout","-q","--","."])
    p=os.path.join(WT,m["file"]); s=open(p).read()
    if s.count(m["old"])<1: print(m["id"],"PATTERN NOT FOUND"); continue
    if s.count(m["old"])>1: print(m["id"],"pattern occurs",s.count(m["old"]),"times (first replaced)")
    open(p,"w").write(s.replace(m["old"],m["new"],1))
    r=subprocess.run(["/venv/bin/python","-m","pytest","-q","-p","no:cacheprovider","-x","-q",*tests],cwd=WT,capture_output=True,text=True)
    print(m["id"], r.stdout.strip().splitlines()[-1])
subprocess.run(["git","-C",WT,"checkout","-q","--","."])
