"""THROWAWAY design-phase prototype (not framework code).

Purpose: find out whether an independent ~150-line reference interpreter of the
documented engine semantics can predict the real delivery log exactly on random
programs, and which semantic subtleties must be written into DESIGN.md.

Program (JSON-like):
  entities: int
  initial: [ {t, tgt, kind, daemon, cancelled} ]           (t in ticks)
  handlers[entity][kind] = behaviour
  behaviour:
    {"imm": [emit...], "shape": "none|one|list", "cancel":[uid...] }
    {"proc": [step...]}  step = ["delay", d] | ["delayfx", d, [emit...]] | ["wait", fid]
                                | ["resolve", fid, val] | ["ret", [emit...]]
  emit = {dt, tgt, kind, daemon}
"""
import heapq
import logging
import random
import sys

from happysimulator import Entity, Event, Instant, Simulation
from happysimulator.core.sim_future import SimFuture

TICK = 1_953_125  # 1/512 s in ns
FIXCOUNTER = True
logging.getLogger("happysimulator").setLevel(logging.ERROR)


# ---------------------------------------------------------------- generator
def gen_program(rng):
    n_ent = rng.randint(1, 4)
    kinds = ["a", "b", "c"]
    n_fut = rng.randint(0, 3)
    fuel0 = 3

    def emit():
        return {
            "dt": rng.choice([0, 0, 0, 1, 1, 2, 3, -1]),
            "tgt": rng.randrange(n_ent),
            "kind": rng.choice(kinds),
            "daemon": rng.random() < 0.2,
        }

    handlers = []
    for _e in range(n_ent):
        h = {}
        for k in kinds:
            r = rng.random()
            if r < 0.45:
                h[k] = {
                    "imm": [emit() for _ in range(rng.choice([0, 0, 1, 1, 2]))],
                    "shape": rng.choice(["none", "one", "list"]),
                }
            else:
                steps = []
                for _ in range(rng.randint(0, 4)):
                    r2 = rng.random()
                    if r2 < 0.35:
                        steps.append(["delay", rng.choice([0, 0, 1, 2])])
                    elif r2 < 0.55:
                        steps.append(["delayfx", rng.choice([0, 1]), [emit() for _ in range(rng.randint(1, 2))]])
                    elif r2 < 0.75 and n_fut:
                        steps.append(["wait", rng.randrange(n_fut)])
                    elif n_fut:
                        steps.append(["resolve", rng.randrange(n_fut), rng.randint(0, 9)])
                steps.append(["ret", [emit() for _ in range(rng.choice([0, 0, 1]))]])
                h[k] = {"proc": steps}
        handlers.append(h)
    initial = [
        {
            "t": rng.choice([0, 1, 1, 2, 2, 2, 3, 5]),
            "tgt": rng.randrange(n_ent),
            "kind": rng.choice(kinds),
            "daemon": rng.random() < 0.2,
            "cancelled": rng.random() < 0.1,
        }
        for _ in range(rng.randint(1, 7))
    ]
    end = rng.choice([None, 2, 4, 50])
    return {"n": n_ent, "handlers": handlers, "initial": initial, "end": end, "n_fut": n_fut, "fuel": fuel0}


# ---------------------------------------------------------------- real run
def run_real(prog, instrumented):
    log = []
    futs = [SimFuture() for _ in range(prog["n_fut"])]
    waited = set()  # futures already awaited by some process (contract: one waiter)

    class Ent(Entity):
        def __init__(self, idx):
            super().__init__(f"e{idx}")
            self.idx = idx

        def mk(self, em, fuel):
            return Event(
                time=Instant(self.now.nanoseconds + em["dt"] * TICK),
                event_type=em["kind"],
                target=ents[em["tgt"]],
                daemon=em["daemon"],
                context={"fuel": fuel},
            )

        def handle_event(self, event):
            fuel = event.context.get("fuel", prog["fuel"])
            log.append((self.now.nanoseconds, self.idx, event.event_type, "D"))
            assert self.now == event.time
            if fuel <= 0:
                return None
            beh = prog["handlers"][self.idx][event.event_type]
            if "imm" in beh:
                evs = [self.mk(em, fuel - 1) for em in beh["imm"]]
                if beh["shape"] == "none" or not evs:
                    return None if beh["shape"] == "none" else evs
                if beh["shape"] == "one":
                    return evs[0]
                return evs
            return self.proc(beh["proc"], fuel, event.event_type)

        def proc(self, steps, fuel, kind):
            for i, st in enumerate(steps):
                if st[0] == "delay":
                    yield st[1] / 512
                    log.append((self.now.nanoseconds, self.idx, kind, f"R{i}"))
                elif st[0] == "delayfx":
                    yield st[1] / 512, [self.mk(em, fuel - 1) for em in st[2]]
                    log.append((self.now.nanoseconds, self.idx, kind, f"R{i}"))
                elif st[0] == "wait":
                    if st[1] in waited:
                        continue
                    waited.add(st[1])
                    v = yield futs[st[1]]
                    log.append((self.now.nanoseconds, self.idx, kind, f"W{i}={v}"))
                elif st[0] == "resolve":
                    futs[st[1]].resolve(st[2])
                elif st[0] == "ret":
                    return [self.mk(em, fuel - 1) for em in st[1]]

    ents = [Ent(i) for i in range(prog["n"])]
    end = None if prog["end"] is None else Instant(prog["end"] * TICK)
    sim = Simulation(entities=ents, end_time=end)
    if instrumented:
        sim.control  # noqa: B018  (attaches control -> slow loop)
    for ie in prog["initial"]:
        ev = Event(time=Instant(ie["t"] * TICK), event_type=ie["kind"], target=ents[ie["tgt"]], daemon=ie["daemon"])
        if ie["cancelled"]:
            ev.cancel()
        sim.schedule(ev)
    if FIXCOUNTER:
        import itertools
        mx = max((e._sort_index for e in sim._event_heap._heap), default=-1)
        sim._event_heap._event_counter = itertools.count(mx + 1)
    s = sim.run()
    return log, s.total_events_processed, s.events_cancelled


# ---------------------------------------------------------------- reference
class RefFuture:
    def __init__(self):
        self.resolved = False
        self.value = None
        self.parked = None  # (proc_state)


def run_ref(prog, prerun_bug=False):
    """Abstract interpreter. Heap entries: (time, seq, item)."""
    seq = [0]
    heap = []
    log = []
    futs = [RefFuture() for _ in range(prog["n_fut"])]
    waited = set()
    end = None if prog["end"] is None else prog["end"] * TICK
    primary = [0]
    processed = [0]
    cancelled_cnt = [0]

    def nxt():
        seq[0] += 1
        return seq[0]

    def push(t, item, daemon, s=None):
        heapq.heappush(heap, (t, nxt() if s is None else s, id(item), item))
        if not daemon:
            primary[0] += 1

    # items: ("ev", tgt, kind, daemon, fuel, cancelled) | ("cont", procstate)
    for ie in prog["initial"]:
        push(ie["t"] * TICK, ["ev", ie["tgt"], ie["kind"], ie["daemon"], prog["fuel"], ie["cancelled"]], ie["daemon"])
    if prerun_bug:
        # model the observed defect: run-created events restart numbering below pre-run ones
        seq[0] = -10_000

    now = [0]

    def mk(em, fuel, out):
        # event object created now (consumes a creation index), pushed later by caller
        out.append((now[0] + em["dt"] * TICK, nxt(), ["ev", em["tgt"], em["kind"], em["daemon"], fuel, False], em["daemon"]))

    def flush(out):
        for t, s, item, daemon in out:
            push(t, item, daemon, s)

    def advance(ps):
        """Run process state until it blocks/finishes. ps = dict(ent,kind,steps,i,fuel,daemon)"""
        out = []
        steps = ps["steps"]
        while ps["i"] < len(steps):
            st = steps[ps["i"]]
            i = ps["i"]
            if st[0] in ("delay", "delayfx"):
                if st[0] == "delayfx":
                    for em in st[2]:
                        mk(em, ps["fuel"] - 1, out)
                ps["i"] += 1
                ps["after"] = ("R", i)
                out.append((now[0] + st[1] * TICK, nxt(), ["cont", ps], ps["daemon"]))
                flush(out)
                return
            if st[0] == "wait":
                if st[1] in waited:
                    ps["i"] += 1
                    continue
                waited.add(st[1])
                f = futs[st[1]]
                ps["i"] += 1
                ps["after"] = ("W", i)
                if f.resolved:
                    ps["send"] = f.value
                    # resume continuation created at park time, pushed immediately
                    push(now[0], ["cont", ps], ps["daemon"])
                else:
                    f.parked = ps
                flush(out)
                return
            if st[0] == "resolve":
                f = futs[st[1]]
                if not f.resolved:
                    f.resolved = True
                    f.value = st[2]
                    if f.parked is not None:
                        p2 = f.parked
                        f.parked = None
                        p2["send"] = f.value
                        push(now[0], ["cont", p2], p2["daemon"])  # pushed immediately, before 'out'
                ps["i"] += 1
                continue
            if st[0] == "ret":
                for em in st[1]:
                    mk(em, ps["fuel"] - 1, out)
                ps["i"] = len(steps)
        flush(out)

    while heap:
        if end is not None and now[0] > end:
            break
        if end is None and primary[0] <= 0:
            break
        t, s, _, item = heapq.heappop(heap)
        daemon = item[3] if item[0] == "ev" else item[1]["daemon"]
        if not daemon:
            primary[0] -= 1
        if item[0] == "ev" and item[5]:
            cancelled_cnt[0] += 1
            continue
        if t < now[0]:
            continue
        now[0] = t
        processed[0] += 1
        if item[0] == "ev":
            _, tgt, kind, dmn, fuel, _c = item
            log.append((t, tgt, kind, "D"))
            if fuel <= 0:
                continue
            beh = prog["handlers"][tgt][kind]
            if "imm" in beh:
                out = []
                ems = beh["imm"]
                for em in ems:
                    mk(em, fuel - 1, out)
                if beh["shape"] == "none":
                    out = []  # created but never scheduled
                elif beh["shape"] == "one":
                    out = out[:1]
                flush(out)
            else:
                nxt()  # initial ProcessContinuation consumes an index, never queued
                ps = {"ent": tgt, "kind": kind, "steps": beh["proc"], "i": 0, "fuel": fuel, "daemon": dmn}
                advance(ps)
        else:
            ps = item[1]
            tag, i = ps["after"]
            if tag == "R":
                log.append((t, ps["ent"], ps["kind"], f"R{i}"))
            else:
                log.append((t, ps["ent"], ps["kind"], f"W{i}={ps.get('send')}"))
            advance(ps)
    return log, processed[0], cancelled_cnt[0]


def main():
    n = int(sys.argv[1]) if len(sys.argv) > 1 else 2000
    bad = 0
    bad_fixed_model = 0
    for seed in range(n):
        prog = gen_program(random.Random(seed))
        for instrumented in (False, True):
            if prog["end"] is None and not instrumented:
                pass
            real = run_real(prog, instrumented)
            ref = run_ref(prog, prerun_bug=False)
            refb = run_ref(prog, prerun_bug=True)

            def ok(r):
                if real[0] == r[0]:
                    return True
                # tolerate one overshoot delivery chain? (only with end set)
                return False

            if not ok(ref):
                bad += 1
                if not ok(refb):
                    bad_fixed_model += 1
                    if bad_fixed_model <= 3:
                        print("MISMATCH even with bug-model seed", seed, "instr", instrumented, "end", prog["end"])
                        print(" real", real[0][:12], real[1:])
                        print(" refb", refb[0][:12], refb[1:])
    print(f"programs={n} mismatch_vs_spec={bad} mismatch_vs_bugmodel={bad_fixed_model}")


if __name__ == "__main__":
    main()
